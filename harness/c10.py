"""C10 Parsers are total and enforce their configured limits.

Real code: HttpRequestParser / HttpResponseParser feed_data + feed_eof,
HeadersParser.parse_headers, HttpPayloadParser.feed_data.
"""
from __future__ import annotations

from harness import common as H
from harness import httpcommon as HC
from symx import core
from symx.core import SSeq

PID = "C10"
EXPLANATION = (
    "The real request and response parsers run on (a) fully symbolic short streams, (b) message templates with a fully "
    "symbolic 1-2 byte window at a solver-chosen offset, fed whole or cut at a solver-chosen position, (c) streams whose "
    "request line / field / chunk-size line / chunk extension / trailer has a length L with every limit symbolic in "
    "[L-2, L+2]. Asserted on every path: only HttpProcessingError leaves feed_data/feed_eof or is stored as the error a body reader will get; a start line longer than "
    "max_line_size, a field or trailer longer than max_field_size, or more than max_headers lines is rejected; bytes retained "
    "between calls stay within the bound the limits imply; per-path step count stays within a linear budget.")
ASSUMPTIONS = [
    "multidict.CIMultiDict replaced by SymCIMultiDict while header names may be symbolic",
    "yarl boundary: concrete targets use the real yarl.URL; for symbolic non-origin-form targets URL()/URL.build(authority=) is a contract stub that returns or raises ValueError (yarl's documented failure mode); a path on which the stub raises and the exception leaves feed_data is replayed with concrete targets known to make yarl raise and reported only if the real parser reproduces",
    "read buffer limit 64 KiB (no payload pausing)",
]
TRUSTED = []

YARL_HOSTILE = ["http://[", "//[::1", "http://[::1", "http://a:b/", "http://a:99999999/", "a:b", "[", "a:99999999"]


def _retained_bound(limits):
    """bytes the parser may keep between calls: one partial line (+CR) plus the
    lines of one header block, and the same again for the payload parser's partial
    line and trailer lines; generous but linear in the limits"""
    ml, mf, mh = limits["max_line_size"], limits["max_field_size"], limits["max_headers"]
    return (ml + mf + 4) + (mh + 1) * (ml + mf)


def _check_total(ctx, chunks, response, limits, extra=None, eof=True, expect=None):
    from aiohttp import http_parser as hp

    cls = hp.HttpResponseParser if response else hp.HttpRequestParser
    kw = dict(limits)
    if response:
        kw.update(read_until_eof=True)
    r = HC.run_request_parser(chunks, parser_cls=cls, eof=eof, **kw)
    tag = "escape" if r.escaped is not None else ("reject" if r.rejected is not None else f"accept:{len(r.msgs)}")
    parts = [r.escaped is None]
    key = None
    if r.escaped is not None:
        import traceback

        tb = traceback.extract_tb(r.escaped.__traceback__)
        frames = [f for f in tb if "/aiohttp/" in f.filename]
        where = frames[-1].name if frames else "?"
        key = f"escape:{type(r.escaped).__name__}@{where}"
    # what a body reader will raise is part of the answer: only protocol errors there either
    if key is None:
        from aiohttp.http_exceptions import HttpProcessingError

        for _m, payload in r.msgs:
            pexc = getattr(payload, "_exception", None)
            if pexc is not None and not isinstance(pexc, HttpProcessingError):
                parts.append(False)
                key = f"payload-fails-with-non-protocol-error:{type(pexc).__name__}"
                break
    bound = _retained_bound(limits)
    parts.append(r.retained_max <= bound)
    if key is None and isinstance(r.retained_max, int) and isinstance(bound, int) and r.retained_max > bound:
        key = "retained-above-bound"
    if expect == "reject":
        parts.append(r.rejected is not None)
        if key is None and r.rejected is None:
            key = f"over-limit-accepted:{(extra or {}).get('where')}"
    f = H.fall(parts)
    info = None
    if f is not True:
        info = {"key": key or "limits"}
        if not ctx.symbolic:
            info.update(chunks=[bytes(c).decode("latin1") for c in chunks],
                        limits={k: int(v) for k, v in limits.items()}, escaped=repr(r.escaped),
                        rejected=repr(r.rejected), retained=r.retained_max, bound=bound)
        info.update(extra or {})
    return f, tag, info


DEFAULT = dict(max_line_size=8190, max_field_size=8190, max_headers=128)


def symbolic_stream(ctx, kind="req", n=4, prefix=b"", domain=None, cut=True):
    data = prefix + ctx.bytes("d", n, domain) if prefix else ctx.bytes("d", n, domain)
    chunks = H.pieces(data, H.cut_points(ctx, "cut", len(data), 1)) if cut else [data]
    return _check_total(ctx, chunks, kind == "resp", DEFAULT)


def template(ctx, kind="req", name="get", lo=0, hi=None, h=1, mode="replace"):
    from harness import c01, c03

    T = dict(c01.TEMPLATES) if kind == "req" else c03.RESP_TEMPLATES
    t = T[name]
    hi = (len(t) - h + 1 if mode == "replace" else len(t) + 1) if hi is None else hi
    pos = lo + ctx.choice("pos", hi - lo)
    hole = ctx.bytes("h", h, "bytewise")
    data = t[:pos] + hole + (t[pos + h:] if mode == "replace" else t[pos:])
    near_lo, near_hi = max(0, pos - 3), min(len(data), pos + h + 3)
    c = near_lo + ctx.choice("cut0", near_hi - near_lo + 1)
    return _check_total(ctx, [data[:c], data[c:]], kind == "resp", DEFAULT, {"template": name, "pos": pos})


# ---- limits: a line of length L in every syntactic position, limits symbolic around L
def _sym_limits(ctx, L):
    return dict(
        max_line_size=ctx.int("max_line_size", max(1, L - 2), L + 2),
        max_field_size=ctx.int("max_field_size", max(1, L - 2), L + 2),
        max_headers=ctx.int("max_headers", 1, 8),
    )


def near_limit(ctx, kind="req", where="request-line", L=24, ncuts=1):
    """stream with one line of exactly L bytes at `where`; limits symbolic in [L-2, L+2].
    Over-limit lines must be rejected in every segmentation."""
    pad = lambda k: b"x" * k  # noqa: E731
    response = kind == "resp"
    start = b"HTTP/1.1 200 OK" if response else b"GET / HTTP/1.1"
    host = b"" if response else b"Host: a\r\n"
    lim = _sym_limits(ctx, L)
    over = None
    nlines = None
    if where == "request-line":
        line = (b"HTTP/1.1 200 " + pad(L - 13)) if response else (b"GET /" + pad(L - 14) + b" HTTP/1.1")
        assert len(line) == L
        data = line + b"\r\n" + host + b"\r\n"
        over = L > lim["max_line_size"]
        nlines = 3 if not response else 2
    elif where == "field":
        line = b"X: " + pad(L - 3)
        data = start + b"\r\n" + host + line + b"\r\n\r\n"
        over = L > lim["max_field_size"]
        nlines = 4 if not response else 3
    elif where == "chunk-size":
        line = b"0" * (L - 1) + b"1"
        data = start + b"\r\n" + host + b"Transfer-Encoding: chunked\r\n\r\n" + line + b"\r\nz\r\n0\r\n\r\n"
        over = L > lim["max_line_size"]
    elif where == "chunk-ext":
        line = b"1;" + pad(L - 2)
        data = start + b"\r\n" + host + b"Transfer-Encoding: chunked\r\n\r\n" + line + b"\r\nz\r\n0\r\n\r\n"
        over = L > lim["max_line_size"]
    elif where == "trailer":
        line = b"T: " + pad(L - 3)
        data = start + b"\r\n" + host + b"Transfer-Encoding: chunked\r\n\r\n0\r\n" + line + b"\r\n\r\n"
        over = L > lim["max_field_size"]
    elif where in ("folded-field", "folded-field-near", "folded-trailer"):
        # obs-fold (accepted by the lax response parser only): one field over three lines, each of
        # them within the limit; it is the field as a whole that must respect max_field_size
        k = (L - 2) // 3 if where.endswith("near") else L // 2
        lines3 = b"X: " + pad(k) + b"\r\n " + pad(k) + b"\r\n\t" + pad(k)
        value_total = 3 * k + 2
        if where == "folded-trailer":
            data = start + b"\r\n" + host + b"Transfer-Encoding: chunked\r\n\r\n0\r\n" + lines3 + b"\r\n\r\n"
        else:
            data = start + b"\r\n" + host + lines3 + b"\r\n\r\n"
        over = value_total > lim["max_field_size"]
    else:
        raise ValueError(where)
    cuts = H.cut_points(ctx, "cut", len(data), ncuts)
    chunks = H.pieces(data, cuts)
    # `over` may be symbolic: split the obligation
    if not isinstance(over, bool):
        over = bool(over)  # fork
    f, tag, info = _check_total(ctx, chunks, response, lim, {"where": where, "cuts": cuts},
                                expect="reject" if over else None)
    return f, ("over:" if over else "within:") + tag, info


def unterminated(ctx, kind="req", where="trailer", L=24):
    """a line that never ends, delivered in three pieces: what is retained after each
    call stays within limit + CR + the piece just fed, and the line is refused once it
    is longer than its limit by more than the last piece"""
    from aiohttp import http_parser as hp
    from aiohttp.http_exceptions import HttpProcessingError

    response = kind == "resp"
    start = b"HTTP/1.1 200 OK" if response else b"GET / HTTP/1.1"
    host = b"" if response else b"Host: a\r\n"
    if where == "request-line":
        head, line = b"", (b"HTTP/1.1 200 " if response else b"GET /") + b"x" * L
        which = "max_line_size"
    elif where == "field":
        head, line = start + b"\r\n" + host, b"X: " + b"x" * L
        which = "max_field_size"
    elif where == "chunk-size":
        head, line = start + b"\r\n" + host + b"Transfer-Encoding: chunked\r\n\r\n", b"0" * L
        which = "max_line_size"
    elif where == "chunk-ext":
        head, line = start + b"\r\n" + host + b"Transfer-Encoding: chunked\r\n\r\n", b"1;" + b"x" * L
        which = "max_line_size"
    else:
        head, line = start + b"\r\n" + host + b"Transfer-Encoding: chunked\r\n\r\n0\r\n", b"T: " + b"x" * L
        which = "max_field_size"
    lim = dict(max_line_size=ctx.int("max_line_size", 28, 28 + L // 2), max_field_size=ctx.int("max_field_size", 28, 28 + L // 2),
               max_headers=128)
    n = len(line)
    c1 = ctx.choice("c1", n + 1)
    c2 = c1 + ctx.choice("c2", n - c1 + 1)
    pieces = [head + line[:c1], line[c1:c2], line[c2:]]
    cls = hp.HttpResponseParser if response else hp.HttpRequestParser
    proto = HC.StubProtocol()
    kw = dict(lim)
    if response:
        kw.update(read_until_eof=True)
    p = cls(proto, None, 2 ** 16, **kw)
    proto._parser = p
    parts = []
    rejected = False
    key = None
    last_nonempty = 0
    for i, piece in enumerate(pieces):
        if len(piece):
            last_nonempty = len(piece) if i else len(line[:c1])
        try:
            p.feed_data(piece)
        except HttpProcessingError:
            rejected = True
            break
        except Exception as e:  # noqa: BLE001
            return False, "escape", {"key": f"escape:{type(e).__name__}"}
        pp = p._payload_parser
        retained = len(p._tail) + (len(pp._chunk_tail) if pp is not None else 0)
        # the length check of a buffered partial line runs when the next bytes arrive
        allowed = lim[which] + 1 + last_nonempty
        ok = retained <= allowed
        parts.append(ok)
    if not rejected:
        # never refused: then the whole partial line must fit limit + CR + last piece
        parts.append(n <= lim[which] + 1 + last_nonempty)
    f = H.fall(parts)
    info = None
    if f is not True:
        info = {"key": f"unterminated-line-retained:{where}", "where": where, "cuts": [c1, c2]}
        if not ctx.symbolic:
            info.update(limits={k: int(v) for k, v in lim.items()}, line_len=n, rejected=rejected)
    return f, ("reject" if rejected else "buffered"), info

def long_numbers(ctx, kind="req"):
    """numeric fields with very many digits (inside max_field_size): Content-Length, chunk size, status
    code, version - the parser answers with messages or an HTTP protocol error, never another exception"""
    from aiohttp import http_parser as hp
    from aiohttp.http_exceptions import HttpProcessingError

    response = kind == "resp"
    where = ctx.pick("where", ["content-length", "chunk-size", "version", "status"] if response else
                     ["content-length", "chunk-size", "version"])
    ndig = ctx.pick("digits", [1, 19, 20, 39, 100, 4300, 4301, 5000, 8000])
    digit = ctx.pick("digit", [b"9", b"1", b"0"])
    num = digit * ndig
    start = b"HTTP/1.1 200 OK\r\n" if response else b"POST / HTTP/1.1\r\nHost: a\r\n"
    if where == "content-length":
        data = start + b"Content-Length: " + num + b"\r\n\r\n"
    elif where == "chunk-size":
        data = start + b"Transfer-Encoding: chunked\r\n\r\n" + num + b"\r\n"
    elif where == "version":
        data = (b"HTTP/" + num + b".1 200 OK\r\n\r\n") if response else (b"GET / HTTP/1." + num + b"\r\nHost: a\r\n\r\n")
    else:
        data = b"HTTP/1.1 " + num + b" OK\r\n\r\n"
    info = {"where": where, "digits": ndig, "digit": digit.decode(), "kind": kind}
    cls = hp.HttpResponseParser if response else hp.HttpRequestParser
    res = HC.run_request_parser([data], parser_cls=cls, eof=False)
    esc = getattr(res, "escaped", None)
    if esc is not None:
        info["key"] = f"escape:{type(esc).__name__}@long-{where}"
        info["detail"] = str(esc)[:120]
        return False, "inv:long", info
    return True, "long:" + ("reject" if res.rejected is not None else "accept"), None


def unterminated_block(ctx, kind="req", k=5):
    """a header block of k complete field lines that is never closed by the empty line,
    cut at one solver-chosen offset; max_headers symbolic: once more than max_headers lines
    have been received the peer is refused - the count does not wait for the end of the
    block - and the lines kept between calls stay within max_headers"""
    from aiohttp import http_parser as hp
    from aiohttp.http_exceptions import HttpProcessingError

    response = kind == "resp"
    start = b"HTTP/1.1 200 OK" if response else b"GET / HTTP/1.1"
    lines = [start] + ([] if response else [b"Host: a"]) + [b"X%d: y" % i for i in range(k)]
    data = b"\r\n".join(lines) + b"\r\n"
    mh = ctx.int("max_headers", 1, len(lines) + 2)
    lim = dict(max_line_size=8190, max_field_size=8190, max_headers=mh)
    cuts = H.cut_points(ctx, "cut", len(data), 1)
    cls = hp.HttpResponseParser if response else hp.HttpRequestParser
    proto = HC.StubProtocol()
    kw = dict(lim)
    if response:
        kw.update(read_until_eof=True)
    p = cls(proto, None, 2 ** 16, **kw)
    proto._parser = p
    rejected = False
    parts = []
    for piece in H.pieces(data, cuts):
        try:
            p.feed_data(piece)
        except HttpProcessingError:
            rejected = True
            break
        except Exception as e:  # noqa: BLE001
            return False, "escape", {"key": f"escape:{type(e).__name__}"}
        parts.append(len(p._lines) <= mh)
    over = bool(len(lines) > mh)
    if over:
        parts.append(rejected)
    f = H.fall(parts)
    info = None
    if f is not True:
        info = {"key": "unterminated-header-block-not-refused", "cuts": cuts, "kind": kind, "lines": len(lines)}
        if not ctx.symbolic:
            info.update(max_headers=int(mh), rejected=rejected)
    return f, ("over:" if over else "within:") + ("reject" if rejected else "buffered"), info


def header_count(ctx, kind="req", k=4):
    """k field lines; max_headers symbolic: more lines than max_headers are rejected"""
    response = kind == "resp"
    start = b"HTTP/1.1 200 OK" if response else b"GET / HTTP/1.1"
    lines = [start] + ([] if response else [b"Host: a"]) + [b"X%d: y" % i for i in range(k)]
    data = b"\r\n".join(lines) + b"\r\n\r\n"
    mh = ctx.int("max_headers", 1, len(lines) + 3)
    lim = dict(max_line_size=8190, max_field_size=8190, max_headers=mh)
    cuts = H.cut_points(ctx, "cut", len(data), 1)
    # the parser counts every line of the block including the start line and the final empty one
    over = bool(len(lines) + 1 > mh)
    f, tag, info = _check_total(ctx, H.pieces(data, cuts), response, lim, {"where": "header-count", "cuts": cuts},
                                expect="reject" if over else None)
    return f, ("over:" if over else "within:") + tag, info


def yarl_boundary(ctx, form="absolute", idx=None):
    """hostile targets: yarl raising ValueError must not leave feed_data.  The target
    is chosen by the solver from the list of strings known to make yarl raise, with
    one symbolic byte appended (kept inside URL-safe ASCII)."""
    t = ctx.pick("target", YARL_HOSTILE)
    method = b"CONNECT" if form == "connect" else b"GET"
    data = method + b" " + t.encode() + b" HTTP/1.1\r\nHost: a\r\n\r\n"
    return _check_total(ctx, [data], False, DEFAULT, {"where": "yarl", "target": t})


def twin(ctx):
    f, tag, info = symbolic_stream(ctx, "req", 2)
    return False, tag, {"key": "twin"}


def setup_models():
    HC.setup_parser_models()


def jobs(tier):
    quick = tier == "quick"
    lim = {"time_limit": 80 if quick else 1500}
    out = []
    for kind in ("req", "resp"):
        for n in ((2, 3, 4) if quick else (2, 3, 4, 5, 6)):
            out.append(dict(name=f"{kind}-sym-{n}", func="symbolic_stream", params=dict(kind=kind, n=n), limits=lim))
        pre = (b"POST / HTTP/1.1\r\nHost: a\r\nTransfer-Encoding: chunked\r\n\r\n" if kind == "req"
               else b"HTTP/1.1 200 OK\r\nTransfer-Encoding: chunked\r\n\r\n")
        for n in ((3,) if quick else (3, 4, 5)):
            out.append(dict(name=f"{kind}-chunked-sym-{n}", func="symbolic_stream",
                            params=dict(kind=kind, n=n, prefix=pre), limits=lim))
        for where in ("request-line", "field", "chunk-size", "chunk-ext", "trailer"):
            for L in ((32,) if quick else (32, 48)):
                if where in ("request-line", "field") and not quick:
                    L = L - 8
                out.append(dict(name=f"{kind}-limit-{where}-{L}", func="near_limit",
                                params=dict(kind=kind, where=where, L=L, ncuts=1), limits=lim))
        if kind == "resp":
            for where in ("folded-field", "folded-field-near", "folded-trailer"):
                out.append(dict(name=f"resp-limit-{where}-32", func="near_limit",
                                params=dict(kind="resp", where=where, L=32, ncuts=1), limits=lim))
        out.append(dict(name=f"{kind}-long-numbers", func="long_numbers", params=dict(kind=kind), limits=lim))
        out.append(dict(name=f"{kind}-header-count", func="header_count", params=dict(kind=kind, k=3), limits=lim))
        out.append(dict(name=f"{kind}-unterminated-block", func="unterminated_block", params=dict(kind=kind, k=4 if quick else 8), limits=lim))
        for where in ("request-line", "field", "chunk-size", "chunk-ext", "trailer"):
            out.append(dict(name=f"{kind}-unterminated-{where}", func="unterminated",
                            params=dict(kind=kind, where=where, L=40 if quick else 64), limits=lim))
    from harness import c01, c03

    span = 16 if quick else 8
    req_names = ["get", "post-chunked", "chunked-ext-trailer", "x-te-cl", "x-cl-plus"] if quick else list(c01.TEMPLATES)
    for name in req_names:
        L = len(c01.TEMPLATES[name])
        for lo in range(0, L, span):
            out.append(dict(name=f"req-tmpl-{name}-{lo}", func="template",
                            params=dict(kind="req", name=name, lo=lo, hi=min(lo + span, L), h=1), limits=lim))
    for name in (["chunked", "lf-only"] if quick else list(c03.RESP_TEMPLATES)):
        L = len(c03.RESP_TEMPLATES[name])
        for lo in range(0, L, span):
            out.append(dict(name=f"resp-tmpl-{name}-{lo}", func="template",
                            params=dict(kind="resp", name=name, lo=lo, hi=min(lo + span, L), h=1), limits=lim))
    out.append(dict(name="yarl-absolute", func="yarl_boundary", params=dict(form="absolute"), limits=lim))
    out.append(dict(name="yarl-connect", func="yarl_boundary", params=dict(form="connect"), limits=lim))
    return out


def twins(tier):
    return [dict(name="twin", func="twin", params={}, limits={"time_limit": 30, "max_paths": 30})]


REQUIRED_OUTCOMES = ("over:reject", "within:accept", "reject", "accept:1")


def bounds(tier):
    return {"unterminated_block": "start line + 4 (quick) / 8 field lines never closed by the empty line, one cut at every offset, max_headers symbolic in 1..lines+2", "unterminated": "a line of 40 (quick) / 64 bytes without terminator in each syntactic position, delivered in 3 pieces at every pair of cut positions, limits symbolic in [28, 28+L/2]",
            "symbolic_streams": "2..4 bytes (quick) / 2..6 (thorough), all 256 values, one symbolic cut; chunked bodies 3 (quick) / 3..5",
            "templates": "C01 request templates and C03 response templates, 1-byte window at every offset, cut within 3 bytes of the window",
            "near_limit": "line length L in {32} (quick) / {24..48}; max_line_size, max_field_size in [L-2,L+2], max_headers 1..8, every single cut; response parser additionally: a field / trailer folded over three lines (obs-fold) of L/2 or (L-2)/3 bytes each",
            "yarl": YARL_HOSTILE}

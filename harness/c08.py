"""C08 Stream reader: exact ordered delivery with back-pressure.

Real code: every public method of aiohttp.streams.StreamReader, BaseProtocol
pause_reading/resume_reading, driven on a deterministic event loop (blocked reads
are real suspended asyncio.Tasks).
"""
from __future__ import annotations

import asyncio

from harness import common as H
from harness.vloop import MemTransport, VLoop, install
from symx import core
from symx.core import sym_eq

PID = "C08"
EXPLANATION = (
    "A script of k operations is chosen by the solver from producer ops {feed_data of 1-2 symbolic bytes, "
    "feed_data(b''), begin/end_http_chunk_receiving, feed_eof, set_exception} and consumer ops {read(1), read(2), "
    "read(-1), readany, readline, readexactly(2), readchunk, read_nowait(1), read_nowait(-1), one step of the async iterators iter_chunks / iter_any / iter_chunked(2) / lines}; the real "
    "StreamReader runs them (a read that blocks stays a suspended task that later ops wake). After every step: bytes "
    "returned so far are a prefix of the bytes fed (equal at EOF), the EOF signal is only given after feed_eof with an "
    "empty buffer, readchunk boundaries are the sender's, the water-mark rules hold and no reader is blocked on an empty "
    "buffer while the transport is paused.")
ASSUMPTIONS = [
    "one consumer at a time (concurrent readers are documented as unsupported)",
    "the protocol is a real BaseProtocol in upgraded mode (no HTTP parser attached; parser pausing is C09)",
    "conservation accounting stops at the first error raised to the consumer (LineTooLong has consumed what it scanned; set_exception poisons later reads)",
]
TRUSTED = []

PRODUCER = ["feed1", "feed2", "feed0", "feed5", "begin", "end", "eof", "exc"]
CONSUMER = ["read1", "read2", "readall", "readany", "readline", "readexactly2", "readchunk", "nowait1", "nowaitall",
            "iterchunks", "iterany", "iterchunked2", "iterline"]
ITER = {"iterchunks": lambda sr: sr.iter_chunks(), "iterany": lambda sr: sr.iter_any(),
        "iterchunked2": lambda sr: sr.iter_chunked(2), "iterline": lambda sr: sr.__aiter__()}
OPS = PRODUCER + CONSUMER


def script(ctx, k=4, limit=1, first=(), ops=None, sym_limit=False):
    from aiohttp.base_protocol import BaseProtocol
    from aiohttp.streams import StreamReader

    ops = list(ops or OPS)
    loop = install(VLoop())
    proto = BaseProtocol(loop)
    proto._upgraded = True
    tr = MemTransport()
    proto.transport = tr
    if sym_limit:
        limit = ctx.int("limit", 0, 3)
    sr = StreamReader(proto, limit, loop=loop)
    low, high = sr._low_water, sr._high_water

    fed = b""
    got = b""
    eof = False
    poisoned = False
    errored = False  # an error was raised to the consumer: conservation no longer tracked
    pending = None
    pending_kind = None
    chunk_open = False
    chunk_ends = []  # sender's chunk end offsets
    reported_ends = []
    only_readchunk = True
    trace = []
    results = []
    iters = {}
    slack = {"unread": False}

    def finish(kind, t):
        nonlocal got, errored, pending, pending_kind
        pending = None
        pending_kind = None
        if t.cancelled():
            return
        e = t.exception()
        if e is not None:
            results.append((kind, "raise", type(e).__name__))
            if not isinstance(e, asyncio.IncompleteReadError):
                errored = True
            else:
                got = got + e.partial
            return
        r = t.result()
        if kind in ITER:
            what, r = r
            if what == "stop":
                results.append((kind, "stop", None))
                return
        if kind in ("readchunk", "iterchunks"):
            data, end = r
            got = got + data
            if end:
                reported_ends.append(len(got))
            results.append((kind, data, end))
        else:
            got = got + r
            results.append((kind, r, None))

    def check(step):
        """invariants after the loop went quiescent"""
        # back-pressure: above high water => paused
        size = sr._size
        v = []
        # (feed_eof resumes on purpose: the body is complete, the connection moves on)
        # (read(n) re-derives the marks from n through set_read_chunk_size: use the live value)
        # (bytes the consumer pushes back with unread_data are not arrivals: the pause rule is re-evaluated
        #  by the next feed_data)
        if size > sr._high_water and not proto._reading_paused and not eof and not slack["unread"]:
            raise _V("not-paused-above-high-water", step)
        if pending is not None and not sr._buffer and proto._reading_paused and not eof:
            raise _V("reader-blocked-on-empty-buffer-while-paused", step)
        if proto._reading_paused != tr.paused:
            raise _V("protocol-and-transport-pause-state-differ", step)

    class _V(Exception):
        def __init__(self, key, step):
            self.key = key
            self.step = step

    try:
        for i in range(k):
            op = first[i] if i < len(first) else ctx.pick(f"op{i}", ops)
            trace.append(op)
            nres = len(results)
            if op in ("feed1", "feed2", "feed0", "feed5"):
                if eof:
                    continue
                # (feed5: one segment well above the high-water mark of the small limits used here)
                n = {"feed1": 1, "feed2": 2, "feed0": 0, "feed5": 5}[op]
                c = ctx.bytes(f"d{i}", n) if n else b""
                fed = fed + c
                sr.feed_data(c)
                if n:
                    slack["unread"] = False
            elif op == "begin":
                if eof or sr.total_bytes and sr._http_chunk_splits is None:
                    continue
                sr.begin_http_chunk_receiving()
                chunk_open = True
            elif op == "end":
                if eof or sr._http_chunk_splits is None or not chunk_open:
                    continue
                sr.end_http_chunk_receiving()
                chunk_open = False
                if not chunk_ends or chunk_ends[-1] != len(fed):
                    if len(fed) > (chunk_ends[-1] if chunk_ends else 0):
                        chunk_ends.append(len(fed))
            elif op == "eof":
                if eof:
                    continue
                sr.feed_eof()
                eof = True
            elif op == "exc":
                if eof:
                    continue
                sr.set_exception(ValueError("boom"))
                poisoned = True
            elif op == "unread1":
                # (deprecated but public) push the byte returned last back in front of the buffer
                if pending is not None or errored or poisoned or len(got) == 0:
                    continue
                import warnings

                with warnings.catch_warnings():
                    warnings.simplefilter("ignore")
                    sr.unread_data(got[len(got) - 1:])
                got = got[:len(got) - 1]
                slack["unread"] = True
                while reported_ends and reported_ends[-1] > len(got):
                    reported_ends.pop()
            else:
                if pending is not None:
                    continue
                if op not in ("readchunk", "iterchunks"):
                    only_readchunk = False
                if op in ("nowait1", "nowaitall"):
                    try:
                        r = sr.read_nowait(1 if op == "nowait1" else -1)
                        got = got + r
                        results.append((op, r, None))
                    except Exception as e:  # noqa: BLE001
                        results.append((op, "raise", type(e).__name__))
                        errored = True
                elif op in ITER:
                    if op not in iters:
                        iters[op] = ITER[op](sr)

                    async def step(it):
                        try:
                            return ("item", await it.__anext__())
                        except StopAsyncIteration:
                            return ("stop", None)

                    pending = asyncio.Task(step(iters[op]), loop=loop)
                    pending_kind = op
                    pending.add_done_callback(lambda t, kind=op: finish(kind, t))
                else:
                    coro = {"read1": lambda: sr.read(1), "read2": lambda: sr.read(2), "readall": lambda: sr.read(-1),
                            "readany": sr.readany, "readline": sr.readline, "readexactly2": lambda: sr.readexactly(2),
                            "readchunk": sr.readchunk}[op]()
                    kind = op
                    pending = asyncio.Task(coro, loop=loop)
                    pending_kind = kind
                    pending.add_done_callback(lambda t, kind=kind: finish(kind, t))
            loop.run_ready()
            check(i)
            # EOF signal only after all data: an empty result from a blocking read means end of stream
            for (kind, r, end) in results[nres:]:
                if r == "raise":
                    continue
                if r == "stop":
                    # the async iterators end the loop: that is the end-of-stream signal
                    if not (eof and not sr._buffer) and not errored:
                        raise _V(f"eof-signalled-before-end:{kind}", i)
                    continue
                if kind in ITER and kind != "iterchunks" and len(r) == 0 and not errored:
                    raise _V(f"iterator-yields-empty-item:{kind}", i)
                if kind in ("read1", "read2", "readany", "readline") and len(r) == 0:
                    if not (eof and not sr._buffer) and not errored:
                        raise _V(f"eof-signalled-before-end:{kind}", i)
                if kind in ("readchunk", "iterchunks") and len(r) == 0 and end is False:
                    if not (eof and not sr._buffer) and not errored:
                        raise _V("eof-signalled-before-end:readchunk", i)
            if loop.exc:
                raise _V("loop-exception-handler-called", i)
    except _V as v:
        info = {"key": v.key, "trace": trace, "step": v.step, "limit": limit if isinstance(limit, int) else "sym"}
        return False, "inv:" + v.key, info

    parts = []
    key = None
    if not errored and not poisoned:
        if len(got) > len(fed):
            parts.append(False)
            key = "more-bytes-returned-than-fed"
        else:
            parts.append(sym_eq(got, fed[:len(got)]))
            key = "bytes-returned-differ-from-fed"
        # at EOF with no reader pending and buffer drained everything must have been delivered
        if eof and not sr._buffer and pending is None:
            parts.append(len(got) == len(fed))
            if len(got) != len(fed):
                key = "bytes-lost-at-eof"
        if not only_readchunk and not errored and any(e not in chunk_ends for e in reported_ends):
            # mixed with other reads some boundaries go unreported, but one that is reported is the sender's
            parts.append(False)
            key = "readchunk-reports-a-boundary-the-sender-did-not-send"
        if only_readchunk and not errored:
            # boundaries reported so far are a prefix of the sender's boundaries
            if reported_ends != chunk_ends[:len(reported_ends)]:
                parts.append(False)
                key = "readchunk-boundary-differs-from-sender"
    f = H.fall(parts)
    info = None
    if f is not True:
        info = {"key": key, "trace": trace, "limit": limit if isinstance(limit, int) else "sym"}
        if not ctx.symbolic:
            info.update(fed=bytes(fed).hex(), got=bytes(got).hex(), chunk_ends=chunk_ends, reported=reported_ends)
    tag = ("eof" if eof else "open") + (":blocked" if pending is not None else "") + (":err" if errored else "")
    if pending is not None:
        pending.cancel()
        loop.run_ready()
    return f, tag, info


def watermarks(ctx):
    """water-mark initialisation for every limit >= 1 (one symbolic integer, no bound
    on its value other than 1..2**40)"""
    from aiohttp.base_protocol import BaseProtocol
    from aiohttp.streams import StreamReader

    loop = install(VLoop())
    limit = ctx.int("limit", 1, 2 ** 40)
    sr = StreamReader(BaseProtocol(loop), limit, loop=loop)
    f = H.fall([sr._low_water == limit, sr._high_water == 2 * limit, sr._high_water_chunks >= 4,
                sr._low_water_chunks >= 2, sr._low_water_chunks * 2 <= sr._high_water_chunks,
                sr._low_water < sr._high_water])
    return f, "wm", (None if f is True else {"key": "watermark-initialisation"})


def twin(ctx):
    f, tag, info = script(ctx, k=2, limit=1)
    return False, tag, {"key": "twin"}


def jobs(tier):
    quick = tier == "quick"
    lim = {"time_limit": 100 if quick else 1800}
    out = [dict(name="watermarks", func="watermarks", params={}, limits=lim)]
    k = 4 if quick else 5
    # split by the first operation(s) so that jobs run in parallel
    for a in OPS:
        if quick:
            out.append(dict(name=f"k{k}-{a}", func="script", params=dict(k=k, limit=1, first=[a]), limits=lim))
        else:
            for b in OPS:
                out.append(dict(name=f"k{k}-{a}-{b}", func="script", params=dict(k=k, limit=1, first=[a, b]), limits=lim))
    # chunked conversations need longer scripts: fix a prefix that opens a chunk
    for rest in (3, 4) if quick else (4, 5):
        out.append(dict(name=f"chunk-prefix-{rest}", func="script",
                        params=dict(k=2 + rest, limit=1, first=["begin", "feed1"],
                                    ops=["feed1", "end", "begin", "eof", "read1", "readany", "readchunk", "readexactly2",
                                         "iterchunks"]),
                        limits=lim))
    # chunk data consumed before its terminator arrives / a read ending exactly on a chunk boundary
    for pre in (["begin", "feed1", "read1", "end"], ["begin", "feed2", "end", "read2"]):
        out.append(dict(name="chunk-boundary-" + "-".join(pre[2:]), func="script",
                        params=dict(k=len(pre) + (3 if quick else 4), limit=1, first=pre,
                                    ops=["feed1", "begin", "end", "eof", "readchunk", "iterchunks", "iterany", "read1"]),
                        limits=lim))
    out.append(dict(name="limit2-k4", func="script", params=dict(k=4, limit=2,
                                                                  ops=["feed1", "feed2", "eof", "read1", "readany", "readline", "begin", "end", "readchunk"]),
                    limits=lim))
    # partial read, push-back (unread_data), then chunk-wise reading: positions stay the sender's
    for pre in (["begin", "feed5", "end", "read2"], ["begin", "feed2", "end", "begin", "feed2", "read1"]):
        out.append(dict(name="unread-" + "-".join(pre[1:]), func="script",
                        params=dict(k=len(pre) + (3 if quick else 4), limit=2, first=pre,
                                    ops=["unread1", "read1", "readchunk", "end", "feed1", "begin", "eof", "iterchunks"]),
                        limits=lim))
    out.append(dict(name="symlimit-k3", func="script", params=dict(k=3, sym_limit=True), limits=lim))
    # degenerate read_bufsize=0: every byte is above the high-water mark and no size is below the low one
    out.append(dict(name="limit0-k4", func="script", params=dict(k=4, limit=0,
                                                                  ops=["feed1", "feed2", "eof", "read1", "readany", "readline", "begin", "end", "readchunk"]),
                    limits=lim))
    return out


def twins(tier):
    return [dict(name="twin", func="twin", params={}, limits={"time_limit": 30, "max_paths": 30})]


REQUIRED_OUTCOMES = ("eof", "open", "open:blocked", "wm")


def bounds(tier):
    return {"script_length": "4 (quick) / 5 (thorough) over 21 operations, all scripts; chunk conversations: prefix begin,feed + 3-4 (quick) / 4-5 more ops over 8 operations",
            "data": "feed_data of 0/1/2/5 fully symbolic bytes", "limit": "1 (all scripts), 2 and 0 (k=4, 9 ops), symbolic 0..3 (k=3); water-mark lemma for every limit in 1..2**40",
            "unread": "prefixes begin,feed5,end,read(2) / begin,feed2,end,begin,feed2,read(1) + 3 (quick) / 4 ops over {unread_data(last byte returned), read(1), readchunk, iter_chunks, end, feed1, begin, eof}", "reads": "read(1) read(2) read(-1) readany readline readexactly(2) readchunk read_nowait(1) read_nowait(-1); one step of iter_chunks / iter_any / iter_chunked(2) / async-for lines on a persistent iterator"}

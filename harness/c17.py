"""C17 Redirects confine credentials and terminate.

Real code: ClientSession._request (redirect loop), strip_auth_from_url,
CookieJar.filter_cookies/update_cookies_from_headers, ClientRequest construction and
send path, ResponseHandler/HttpResponseParser/ClientResponse - all real; origins are
scripted peers on in-memory transports.
"""
from __future__ import annotations

import asyncio
import base64

from harness.vloop import MemTransport, VLoop, install
from symx import core

PID = "C17"
EXPLANATION = (
    "The solver chooses the initial request (method GET/POST/PUT/HEAD, body none/bytes (Content-Length or chunked), caller headers Authorization, "
    "Cookie, Proxy-Authorization, per-request cookies, max_redirects) and a redirect chain of up to 3 hops, each with a "
    "status from {301,302,303,307,308} and a Location form from {same origin path, other port, other scheme, other host, "
    "URL with user:pass@, relative, scheme-relative, non-HTTP scheme, unparsable, missing}; the jar is pre-loaded for two "
    "origins. Scripted origin servers on in-memory transports record every request the real client emits. Checked: a "
    "caller credential appears only while every hop so far stayed on the origin it was supplied for; jar cookies are "
    "re-selected per hop; method and body follow the documented table; at most max_redirects requests; non-HTTP and "
    "unparsable targets are refused; history is complete and ordered and every intermediate response released.")
ASSUMPTIONS = [
    "origins are scripted peers on in-memory transports (https origins are plain transports too: TLS is outside)",
    "no proxies, trust_env=False, no netrc",
    "virtual time",
]
TRUSTED = ["harness/vloop.py"]

ORIGIN0 = "http://a"
LOCATIONS = {
    "same": "http://a/n{i}",
    "port": "http://a:81/n{i}",
    "scheme": "https://a/n{i}",
    "host": "http://b/n{i}",
    "subdomain": "http://s.a/n{i}",
    "creds": "http://u:p@b/n{i}",
    "relative": "rel{i}",
    "scheme-relative": "//b/n{i}",
    "back": "http://a/back{i}",
    "non-http": "ftp://b/x",
    "invalid": "http://[",
    "missing": None,
}
TOKEN = "Bearer caller-token"


def chain(ctx, nhops=2, first_loc=None, methods=("GET", "POST", "PUT", "HEAD"), locs=None, small=False, followup=False):
    import logging

    import aiohttp
    from aiohttp.client_proto import ResponseHandler
    from aiohttp.connector import BaseConnector
    from yarl import URL

    logging.disable(logging.CRITICAL)
    loop = install(VLoop())
    conns = []

    class Conn(BaseConnector):
        async def _create_connection(self, req, traces, timeout):
            proto = ResponseHandler(loop)
            tr = MemTransport()
            proto.connection_made(tr)
            conns.append({"proto": proto, "tr": tr, "origin": str(req.url.origin()), "answered": 0})
            return proto

    method = ctx.pick("method", list(methods))
    has_body = ctx.flag("has_body") if method in ("POST", "PUT") else False
    # (quick tier: PUT bodies are chunked, POST bodies have a Content-Length; thorough: both ways for both)
    chunked_body = (method == "PUT" if small else ctx.flag("chunked_request_body")) if has_body else False
    send_auth = ctx.flag("auth_header")
    send_cookie_hdr = ctx.flag("cookie_header")
    send_req_cookies = ctx.flag("request_cookies")
    send_proxy_auth = ctx.flag("proxy_auth_header")
    max_redirects = ctx.pick("max_redirects", [2, 10] if small else [1, 2, 10])
    hops = []
    locnames = list(locs or LOCATIONS)
    for i in range(nhops):
        status = ctx.pick(f"status{i}", [302, 303, 307] if (small and i > 0) else [301, 302, 303, 307, 308])
        loc = first_loc if (i == 0 and first_loc) else ctx.pick(f"loc{i}", locnames)
        hops.append((status, loc))
        if loc in ("non-http", "invalid", "missing"):
            break

    async def mk():
        jar = aiohttp.CookieJar()
        jar.update_cookies({"ja": "1"}, URL("http://a/"))
        jar.update_cookies({"jb": "1"}, URL("http://b/"))
        return aiohttp.ClientSession(connector=Conn(limit=10), cookie_jar=jar)

    session = loop.run_until_complete(mk())
    headers = {}
    if send_auth:
        headers["Authorization"] = TOKEN
    if send_cookie_hdr:
        headers["Cookie"] = "hc=1"
    if send_proxy_auth:
        headers["Proxy-Authorization"] = "Basic cHJveHk="
    kw = dict(headers=headers, max_redirects=max_redirects)
    start_url = ORIGIN0 + "/start"
    if followup:
        # history dimension: what one request (chain) was given must not be sent by the next one
        if ctx.flag("url_credentials"):
            start_url = "http://user:secret@a/start"
        if not headers and ctx.flag("no_headers_argument"):
            del kw["headers"]
    if send_req_cookies:
        kw["cookies"] = {"rc": "1"}
    if has_body:
        kw["data"] = b"payload"
        if chunked_body:
            kw["chunked"] = True
    result = {}

    async def go():
        try:
            async with session.request(method, start_url, **kw) as resp:
                result["status"] = resp.status
                result["history"] = [(h.status, h.closed, h._released if hasattr(h, "_released") else None) for h in resp.history]
                await resp.read()
        except Exception as e:  # noqa: BLE001
            result["error"] = type(e).__name__

    task = asyncio.Task(go(), loop=loop)
    loop.run_ready()
    recorded = []  # (origin, method, path, headers dict, body)
    second = []  # requests of the follow-up call (followup mode)
    phase = {"second": False}
    garbage = []

    def parse_new():
        """scripted peers: answer every new request according to the chain"""
        progressed = False
        for c in conns:
            raw = bytes(c["tr"].out)
            blocks = raw.split(b"\r\n\r\n")
            # requests have either no body or a 7 byte body
            pos = 0
            reqs = []
            while True:
                e = raw.find(b"\r\n\r\n", pos)
                if e < 0:
                    break
                head = raw[pos:e].split(b"\r\n")
                if len(head[0].split(b" ")) != 3:
                    # bytes that are no request at all (e.g. a stray chunk terminator after a body-less request)
                    garbage.append(raw[pos:e + 4][:40])
                    pos = e + 4
                    continue
                m, p, _v = head[0].split(b" ")
                hd = {}
                for ln in head[1:]:
                    k, _, v = ln.partition(b":")
                    hd.setdefault(k.strip().lower().decode(), []).append(v.strip().decode("latin1"))
                if "chunked" in ",".join(hd.get("transfer-encoding", [])).lower():
                    # 7\r\npayload\r\n0\r\n\r\n
                    end = raw.find(b"0\r\n\r\n", e + 4)
                    if end < 0:
                        break
                    chunk = raw[e + 4:end]
                    body = chunk.split(b"\r\n", 1)[1].rsplit(b"\r\n", 1)[0] if b"\r\n" in chunk else b""
                    pos = end + 5
                    reqs.append((m.decode(), p.decode(), hd, body))
                    continue
                blen = int(hd.get("content-length", ["0"])[0])
                body = raw[e + 4:e + 4 + blen]
                pos = e + 4 + blen
                reqs.append((m.decode(), p.decode(), hd, body))
            while c["answered"] < len(reqs):
                m, p, hd, body = reqs[c["answered"]]
                c["answered"] += 1
                if phase["second"]:
                    second.append((c["origin"], m, p, hd, body))
                    c["proto"].data_received(b"HTTP/1.1 200 OK\r\nContent-Length: 2\r\n\r\nok")
                    progressed = True
                    continue
                idx = len(recorded)
                recorded.append((c["origin"], m, p, hd, body))
                if idx < len(hops):
                    status, loc = hops[idx]
                    target = LOCATIONS[loc]
                    lh = b"" if target is None else b"Location: " + target.format(i=idx).encode() + b"\r\n"
                    c["proto"].data_received(b"HTTP/1.1 %d R\r\nContent-Length: 0\r\n" % status + lh + b"\r\n")
                else:
                    c["proto"].data_received(b"HTTP/1.1 200 OK\r\nContent-Length: 2\r\n\r\nok")
                progressed = True
        return progressed

    for _ in range(12):
        if not parse_new():
            break
        loop.run_ready()
    loop.run_ready()
    trace = {"method": method, "body": has_body, "chunked": chunked_body, "hops": hops, "max_redirects": max_redirects,
             "auth": send_auth, "cookie_hdr": send_cookie_hdr, "req_cookies": send_req_cookies,
             "proxy_auth": send_proxy_auth}

    def fail(key, **k2):
        info = {"key": key, "script": trace, "requests": [(o, m, p, sorted((k, v) for k, v in hd.items() if k in (
            "authorization", "cookie", "proxy-authorization")), bytes(b).decode()) for (o, m, p, hd, b) in recorded],
                "result": {k: v for k, v in result.items()}}
        info.update(k2)
        return False, "inv:" + key, info

    if garbage:
        return fail("bytes-that-are-no-request-emitted", garbage=[g.decode("latin1") for g in garbage])
    if not task.done():
        task.cancel()
        loop.run_ready()
        return fail("request-never-completes")
    # ---- credentials confinement
    left_origin = False
    origin0 = recorded[0][0] if recorded else None
    for i, (origin, m, p, hd, body) in enumerate(recorded):
        if origin != origin0:
            left_origin = True
        auth = hd.get("authorization", [])
        cookie = "; ".join(hd.get("cookie", []))
        pauth = hd.get("proxy-authorization", [])
        if left_origin:
            if TOKEN in auth:
                return fail("caller-authorization-sent-after-leaving-origin", hop=i)
            if "hc=1" in cookie:
                return fail("caller-cookie-header-sent-after-leaving-origin", hop=i)
            if "rc=1" in cookie:
                return fail("per-request-cookies-sent-after-leaving-origin", hop=i)
            if pauth:
                return fail("caller-proxy-authorization-sent-after-leaving-origin", hop=i)
        # jar cookies re-selected per hop
        host = origin.split("//")[1].split(":")[0]
        if host == "b" and "ja=1" in cookie:
            return fail("jar-cookie-of-other-host-sent", hop=i)
        if host == "a" and "jb=1" in cookie:
            return fail("jar-cookie-of-other-host-sent", hop=i)
        if host == "b" and "jb=1" not in cookie:
            return fail("jar-cookie-not-reselected-for-hop", hop=i)
        if host == "s.a" and ("ja=1" in cookie or "jb=1" in cookie):
            # ja was set by host a without a Domain attribute: host-only, not for its sub-domains
            return fail("host-only-jar-cookie-sent-to-subdomain", hop=i)
        # URL-embedded credentials belong to that hop only
        if i > 0 and hops[i - 1][1] == "creds":
            want = "Basic " + base64.b64encode(b"u:p").decode()
            if want not in auth:
                return fail("url-credentials-not-applied", hop=i)
    # ---- method / body table
    exp_m, exp_body = method, (b"payload" if has_body else b"")
    for i, (origin, m, p, hd, body) in enumerate(recorded):
        if m != exp_m:
            return fail("method-differs-from-documented-table", hop=i, expected=exp_m, got=m)
        if bytes(body) != exp_body:
            return fail("body-differs-from-documented-table", hop=i)
        if i < len(hops):
            status = hops[i][0]
            if (status == 303 and exp_m != "HEAD") or (status in (301, 302) and exp_m == "POST"):
                exp_m, exp_body = "GET", b""
    # ---- termination
    if len(recorded) > max_redirects and len(recorded) > 1 and len(hops) >= max_redirects:
        if len(recorded) > max_redirects:
            return fail("more-requests-than-max-redirects", n=len(recorded))
    last = hops[len(recorded) - 1][1] if 0 < len(recorded) <= len(hops) else None
    if last in ("non-http", "invalid") and "error" not in result:
        return fail("bad-redirect-target-not-refused:" + last)
    if "status" in result and "history" in result:
        if [h[0] for h in result["history"]] != [h[0] for h in hops[:len(result["history"])]]:
            return fail("history-incomplete-or-out-of-order")
        if any(not h[1] for h in result["history"]):
            return fail("intermediate-response-not-released")
    if followup:
        phase["second"] = True
        defaults_before = sorted(session.headers.items())
        res2 = {}

        async def go2():
            try:
                async with session.get("http://c/second") as resp2:
                    res2["status"] = resp2.status
                    await resp2.read()
            except Exception as e:  # noqa: BLE001
                res2["error"] = type(e).__name__

        t2 = asyncio.Task(go2(), loop=loop)
        loop.run_ready()
        for _ in range(4):
            if not parse_new():
                break
            loop.run_ready()
        if not t2.done():
            t2.cancel()
            loop.run_ready()
            return fail("follow-up-request-never-completes")
        for (origin, m, p, hd, body) in second:
            leaked = sorted(k for k in ("authorization", "proxy-authorization") if hd.get(k))
            cookie = "; ".join(hd.get("cookie", []))
            if "hc=1" in cookie or "rc=1" in cookie:
                leaked.append("cookie")
            if leaked:
                return fail("credentials-of-an-earlier-request-sent-by-the-next:" + ",".join(leaked),
                            second=[(o, m2, p2, sorted((k, v) for k, v in h2.items() if k in ("authorization", "cookie", "proxy-authorization")))
                                    for (o, m2, p2, h2, _b) in second])
        if res2.get("status") != 200 or len(second) != 1:
            return fail("follow-up-request-fails", res2=res2, n=len(second))
    ct = asyncio.Task(session.close(), loop=loop)
    loop.run_ready()
    tag = ("err:" + result["error"]) if "error" in result else f"ok:{len(recorded)}req"
    return True, tag, None


def twin(ctx):
    r = chain(ctx, nhops=1)
    return False, r[1], {"key": "twin"}


def jobs(tier):
    quick = tier == "quick"
    lim = {"time_limit": 110 if quick else 1800}
    out = []
    for loc in LOCATIONS:
        out.append(dict(name=f"chain2-{loc}", func="chain",
                        params=dict(nhops=2, first_loc=loc, methods=["GET", "POST", "PUT"] if quick else ["GET", "POST", "PUT", "HEAD"],
                                    locs=["same", "host", "back", "relative", "scheme-relative", "creds", "subdomain"] if quick else None,
                                    small=quick),
                        limits=lim))
    # a second, header-less request on the same session after the chain (URL credentials / no headers= argument)
    for loc in ("same", "host", "relative") if quick else list(LOCATIONS):
        out.append(dict(name=f"followup-{loc}", func="chain",
                        params=dict(nhops=1, first_loc=loc, methods=["GET", "POST"], small=True, followup=True), limits=lim))
    if not quick:
        for loc in ("host", "creds", "scheme-relative", "port", "scheme"):
            out.append(dict(name=f"chain3-{loc}", func="chain",
                            params=dict(nhops=3, first_loc=loc, methods=["GET", "POST"],
                                        locs=["same", "host", "back", "creds", "scheme-relative", "subdomain"]), limits=lim))
    return out


def twins(tier):
    return [dict(name="twin", func="twin", params={}, limits={"time_limit": 30, "max_paths": 30})]


REQUIRED_OUTCOMES = ("ok:3req", "ok:1req", "err:")


def bounds(tier):
    return {"chain": "2 hops (quick) / up to 3; first Location form fixed per job (all 11), later ones solver-chosen",
            "statuses": [301, 302, 303, 307, 308], "locations": sorted(LOCATIONS), "methods": ["GET", "POST", "PUT", "HEAD"],
            "credentials": "Authorization, Cookie, Proxy-Authorization headers and per-request cookies each on/off; jar pre-loaded for hosts a and b",
            "max_redirects": [1, 2, 10],
            "followup": "1-hop chain (first URL with or without user:secret@, headers= given or omitted), then a GET to a third origin on the same session: it carries none of the first request's credentials"}

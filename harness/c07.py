"""C07 Connection pool: limits hold, nothing leaks, no waiter is forgotten.

Real code: BaseConnector.connect/_get/_wait_for_available_connection/_release_waiter/
_release_acquired/_release/_available_connections/_close_immediately, Connection,
ResponseHandler (real protocol objects on in-memory transports), on a deterministic loop.
"""
from __future__ import annotations

import asyncio

from harness import common as H
from harness.vloop import MemTransport, VLoop, install
from symx import core

PID = "C07"
EXPLANATION = (
    "(1) Arithmetic: _available_connections runs with symbolic limit and limit_per_host (integers 0..1000) and every "
    "population of the acquired sets up to 3 per key; z3 decides that it is positive exactly when neither limit is "
    "exhausted. (2) Schedules: the solver chooses a script of k steps over the currently enabled operations {start a "
    "connect() task for host A/B, let a pending connection attempt succeed / fail, release or close a held connection "
    "(with or without letting the loop run before the next step), cancel a task, let 5 s pass while some connect() runs under ClientTimeout(connect=3), close the connector (as a new task, or from a task that is already running)}; the real "
    "coroutines run on a deterministic loop with limit and limit_per_host solver-chosen. After every step: in-use plus "
    "in-progress connections within both limits, no task left waiting while a slot it could use is free, and at the end "
    "nothing counted as in use, every transport closed after close().")
ASSUMPTIONS = [
    "_create_connection is a stub whose outcome (success / failure / still pending) is an operation of the script; connections are real ResponseHandler objects on in-memory transports",
    "requests are objects exposing connection_key and proxy=None (all BaseConnector.connect reads); no tracing",
    "random.shuffle in _release_waiter is left as is: wake-up obligations are stated per key, so the order among keys does not matter",
]
TRUSTED = ["harness/vloop.py"]


class _Req:
    def __init__(self, key):
        self.connection_key = key
        self.proxy = None


def avail_lemma(ctx, maxpop=3):
    """_available_connections(key) > 0  <=>  (limit == 0 or |acquired| < limit) and
    (limit_per_host == 0 or |acquired[key]| < limit_per_host)"""
    from aiohttp.connector import BaseConnector

    loop = install(VLoop())
    conn = BaseConnector(limit=0, limit_per_host=0, loop=loop) if False else BaseConnector(limit=0, limit_per_host=0)
    limit = ctx.int("limit", 0, 1000)
    lph = ctx.int("limit_per_host", 0, 1000)
    conn._limit = limit
    conn._limit_per_host = lph
    na = ctx.choice("n_key", maxpop + 1)
    nb = ctx.choice("n_other", maxpop + 1)
    key, other = "A", "B"
    objs_a = [object() for _ in range(na)]
    objs_b = [object() for _ in range(nb)]
    conn._acquired = set(objs_a) | set(objs_b)
    conn._acquired_per_host = {}
    if objs_a:
        conn._acquired_per_host[key] = set(objs_a)
    if objs_b:
        conn._acquired_per_host[other] = set(objs_b)
    r = conn._available_connections(key)
    total = na + nb
    want = core.conj([core.disj([limit == 0, total < limit]), core.disj([lph == 0, na < lph])])
    got = r > 0
    f = core.mkbool(core.E(got) == want) if not isinstance(got, bool) or not isinstance(want, bool) else (got == want)
    conn._closed = True
    return f, "avail", (None if f is True else {"key": "available-connections-arithmetic"})


def schedule(ctx, k=5, limits=None, first=(), with_timeouts=False):
    from aiohttp import ClientTimeout
    from aiohttp.client_proto import ResponseHandler
    from aiohttp.client_reqrep import ConnectionKey
    from aiohttp.connector import BaseConnector

    import random

    loop = install(VLoop())
    # _release_waiter shuffles the keys: make the shuffle reproducible, and let the solver pick it
    random.seed(ctx.choice("shuffle_seed", 3))
    if limits is None:
        limit = ctx.pick("limit", [1, 2])
        lph = ctx.pick("lph", [0, 1])
    else:
        limit, lph = limits
    pending_creates = []  # [fut, key, proto_holder]
    transports = []

    class Conn(BaseConnector):
        async def _create_connection(self, req, traces, timeout):
            fut = loop.create_future()
            pending_creates.append([fut, req.connection_key, None])
            ok = await fut
            if not ok:
                raise OSError("connect failed")
            proto = ResponseHandler(loop)
            tr = MemTransport()
            proto.connection_made(tr)
            transports.append(tr)
            return proto

    conn = Conn(limit=limit, limit_per_host=lph, keepalive_timeout=1000)
    # cause attribution for over-limit states: did the acquisition come from the idle pool
    # while no capacity was available?
    cause = {"idle_reuse_without_capacity": False}
    orig_get = conn._get

    async def traced_get(key, traces):
        had_capacity = conn._available_connections(key) > 0
        r = await orig_get(key, traces)
        if r is not None and not had_capacity:
            cause["idle_reuse_without_capacity"] = True
        return r

    conn._get = traced_get
    keys = {n: ConnectionKey(n, 80, False, True, None, None, None) for n in ("A", "B")}
    tmo = ClientTimeout()
    tasks = []  # (task, keyname)
    held = []  # Connection objects obtained and not yet released
    trace = []
    closed = False
    advanced = False

    def harvest():
        for rec in tasks:
            t = rec[0]
            if t.done() and not rec[2]:
                rec[2] = True
                if not t.cancelled() and t.exception() is None:
                    held.append(t.result())

    def violation(key, step):
        return False, "inv:" + key, {"key": key, "trace": trace, "limit": limit, "limit_per_host": lph, "step": step}

    def check(step, quiescent):
        harvest()
        if closed:
            return None
        n_acq = len(conn._acquired)
        why = ":idle-reuse-before-capacity-check" if cause["idle_reuse_without_capacity"] else ""
        if limit and n_acq > limit:
            return violation("in-use-above-limit" + why, step)
        if lph:
            for kk, s in conn._acquired_per_host.items():
                if len(s) > lph:
                    return violation("in-use-above-limit-per-host" + why, step)
        if quiescent:
            # a task parked on a waiter future while a slot it could use is free, with nothing scheduled
            for kk, waiters in conn._waiters.items():
                live = [w for w in waiters if not w.done()]
                if live and conn._available_connections(kk) > 0:
                    return violation("waiter-not-woken-while-slot-free", step)
            # every task that is neither finished nor creating nor registered as waiter is lost
            n_wait = sum(1 for ws in conn._waiters.values() for w in ws if not w.done())
            n_create = sum(1 for p in pending_creates if not p[0].done())
            n_pending_tasks = sum(1 for rec in tasks if not rec[0].done())
            if n_pending_tasks != n_wait + n_create:
                return violation("task-blocked-outside-waiters-and-creations", step)
        return None

    for i in range(k):
        harvest()
        enabled = []
        if not closed:
            if len(tasks) < 4:
                enabled += [("connect", "A"), ("connect", "B")]
                if with_timeouts:
                    enabled += [("connect_t", "A")]  # the same with ClientTimeout(connect=3)
                if any(c is not None for c in held):
                    # started in the same loop iteration as a following release
                    enabled += [("connect_notick", "A")]
            for j, p in enumerate(pending_creates):
                if not p[0].done():
                    enabled += [("create_ok", j), ("create_fail", j)]
            for j, c in enumerate(held):
                if c is not None:
                    enabled += [("release", j), ("release_notick", j), ("close_conn", j)]
            for j, rec in enumerate(tasks):
                if not rec[0].done():
                    enabled.append(("cancel", j))
            if with_timeouts and not advanced and any(rec[3] and not rec[0].done() for rec in tasks):
                enabled.append(("advance", 5))
            enabled.append(("close",))
            # close() awaited by a task that is already running: its synchronous part happens at once,
            # before anything that the previous (no-tick) operation has merely scheduled
            enabled.append(("close_now",))
        if not enabled:
            break
        op = tuple(first[i]) if i < len(first) else ctx.pick(f"op{i}", enabled)
        if op not in enabled:
            break
        trace.append(list(op))
        tick = True
        if op[0] in ("connect", "connect_notick", "connect_t"):
            timed = op[0] == "connect_t"
            t = asyncio.Task(conn.connect(_Req(keys[op[1]]), [], ClientTimeout(connect=3) if timed else tmo), loop=loop)
            tasks.append([t, op[1], False, timed])
            tick = op[0] != "connect_notick"
        elif op[0] == "advance":
            advanced = True
            loop.advance(op[1])
            for rec in tasks:
                if rec[3] and not rec[0].done():
                    return violation("connect-timeout-does-not-end-the-wait", i)
        elif op[0] == "create_ok":
            pending_creates[op[1]][0].set_result(True)
        elif op[0] == "create_fail":
            pending_creates[op[1]][0].set_result(False)
        elif op[0] in ("release", "release_notick"):
            held[op[1]].release()
            held[op[1]] = None
            tick = op[0] == "release"
        elif op[0] == "close_conn":
            held[op[1]].close()
            held[op[1]] = None
        elif op[0] == "cancel":
            tasks[op[1]][0].cancel()
        elif op[0] == "close":
            ct = asyncio.Task(conn.close(), loop=loop)
            closed = True
        elif op[0] == "close_now":
            ct = asyncio.Task(conn.close(), loop=loop, eager_start=True)
            closed = True
        if tick:
            loop.run_ready()
        r = check(i, tick)
        if r:
            return r
        if loop.exc:
            return violation("loop-exception-handler-called", i)
    # ---- wind down: let everything finish, release what is held
    loop.run_ready()
    harvest()
    if not closed:
        for p in pending_creates:
            if not p[0].done():
                p[0].set_result(True)
        loop.run_ready()
        harvest()
        # waiters may now proceed as slots are released one by one
        for _round in range(8):
            progressed = False
            for j, c in enumerate(held):
                if c is not None:
                    c.release()
                    held[j] = None
                    progressed = True
                    loop.run_ready()
                    harvest()
                    for p in pending_creates:
                        if not p[0].done():
                            p[0].set_result(True)
                    loop.run_ready()
                    harvest()
            if not progressed:
                break
        stuck = [rec for rec in tasks if not rec[0].done()]
        if stuck:
            return violation("task-never-completes-after-all-released", k)
        if conn._acquired:
            return violation("slot-leaked-at-quiescence", k)
        if any(s for s in conn._acquired_per_host.values()):
            return violation("per-host-slot-leaked-at-quiescence", k)
        if any(w for ws in conn._waiters.values() for w in ws):
            return violation("waiter-entry-leaked", k)
        ct = asyncio.Task(conn.close(), loop=loop)
        loop.run_ready()
    else:
        loop.run_ready()
        harvest()
        # connections handed out before close() are closed by it; later attempts fail
        for p in pending_creates:
            if not p[0].done():
                p[0].set_result(True)
        loop.run_ready()
        harvest()
        for c in held:
            if c is not None:
                c.release()
        loop.run_ready()
        if any(not rec[0].done() for rec in tasks):
            return violation("task-blocked-after-connector-close", k)
    if any(not tr.closed for tr in transports):
        return violation("transport-open-after-connector-close", k)
    return True, f"{'closed' if closed else 'drained'}:{len(tasks)}t", None


def twin(ctx):
    r = schedule(ctx, k=2, limits=(1, 0))
    return False, r[1], {"key": "twin"}


def jobs(tier):
    quick = tier == "quick"
    lim = {"time_limit": 110 if quick else 1800}
    out = [dict(name="avail-lemma", func="avail_lemma", params={}, limits=lim)]
    k = 6 if quick else 8
    seconds = [["connect", "A"], ["connect", "B"], ["create_ok", 0], ["create_fail", 0], ["cancel", 0], ["close"]]
    for limits in ((1, 0), (1, 1), (2, 0), (2, 1)):
        for f1 in seconds:
            out.append(dict(name=f"sched-L{limits[0]}-H{limits[1]}-{'-'.join(map(str, f1))}", func="schedule",
                            params=dict(k=k, limits=list(limits), first=[["connect", "A"], f1]), limits=lim))
    # waiting for a slot / for the connection attempt under ClientTimeout(connect=3)
    for limits in ((1, 0), (1, 1)):
        for f in ([["connect", "A"], ["connect_t", "A"]], [["connect_t", "A"], ["connect", "A"]], [["connect", "B"], ["connect_t", "A"]]):
            out.append(dict(name=f"timeout-L{limits[0]}-H{limits[1]}-{f[0][0]}{f[0][1]}-{f[1][0]}{f[1][1]}", func="schedule",
                            params=dict(k=k - 1, limits=list(limits), first=f, with_timeouts=True), limits=lim))
    return out


def twins(tier):
    return [dict(name="twin", func="twin", params={}, limits={"time_limit": 30, "max_paths": 30})]


REQUIRED_OUTCOMES = ("avail", "drained", "closed")


def bounds(tier):
    return {"lemma": "limit, limit_per_host symbolic in 0..1000; acquired population 0..3 for the key and 0..3 for another key",
            "schedules": "k=6 (quick) / 8 steps, the first being connect(A) and the second each enabled operation (one job each); up to 4 connect tasks, 2 hosts, (limit, limit_per_host) in {1,2}x{0,1}; release with and without a loop tick before the next step; 6 jobs in which connect() may run under ClientTimeout(connect=3) and 5 s of virtual time may pass",
            "wind_down": "after the script every pending attempt succeeds and held connections are released one by one"}

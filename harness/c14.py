"""C14 URL dispatch follows the documented resolution rule.

Real code: UrlDispatcher.resolve/_get_resource_index_key/index_resource/unindex_resource,
Resource.resolve, PlainResource/DynamicResource._match (compiled template regex),
PrefixedSubAppResource.resolve/_add_prefix_to_resources, _unquote_path_safe.
Oracle: refs/ref_router.py (linear statement of the documented rule, own template
translation).
"""
from __future__ import annotations

import itertools

from harness import common as H
from symx import core
from symx.core import SSeq, sym_eq

PID = "C14"
EXPLANATION = (
    "Route tables are concrete programs generated from a grammar of templates (plain, {v}, {v:regex}, {tail:.*}, "
    "variables starting mid-segment, nested prefixes, a sub-application mounted under a prefix) in every registration "
    "order of 2 (quick) / 3 (thorough) resources; on each table a sequence of two requests is resolved by the real "
    "UrlDispatcher: the first request is solver-chosen from a pool, the second has a fully symbolic path and a "
    "solver-chosen method. z3 decides per path that route identity, match_info, 404 and 405 with its allowed-method set "
    "equal the documented linear rule.")
ASSUMPTIONS = [
    "the request is an object exposing .method and .rel_url.path_safe (all that Resource.resolve reads); path_safe is the symbolic string itself (yarl's decoding is third-party code)",
    "url_for/resolve inverse and normalize_path_middleware redirects are decided on concrete strings chosen by the solver from a fixed alphabet (quoting and URL parsing live in yarl, third-party code that cannot take symbolic text): 27 parameter values x 5 templates; request targets of 1-3 (quick) / 1-4 pieces out of 14 (//, /\\, %2F, %5C, dot segments, evil.com ...) through a real server connection with 4 middleware configurations",
    "domain sub-applications are decided on four concrete table shapes (one domain, the same domain twice, a mask before an exact name, a domain inside a prefix-mounted sub-application) x 9 Host values (incl. names that only start or end like a registered one) x 6 paths x 2 methods; Host values are lower-case without a port",
]
TRUSTED = ["refs/ref_router.py as a reading of docs/web_reference.rst 'Resource'", "symx regex model (used by both sides for the template regexes)"]

POOL = ["/", "/a", "/a/b", "/a/{v}", r"/a/{v:\d+}", "/{v}", "/a{v}", "/a/{tail:.*}", "/{tail:.*}", "/a/b/{v}", "/{v}/b",
        "/a/{v}/b"]
METHODS = ["GET", "POST", "DELETE"]
REQ_POOL = ["/", "/a", "/a/b", "/a/1", "/a/x", "/ab", "/a/b/c", "/x/b", "/a/1/b", "/zz", "/a/"]
ALPHABET = [ord(c) for c in "/ab1%2F{."]


class _RelUrl:
    def __init__(self, p):
        self.path_safe = p
        self.path = p
        self.raw_path = p


class _Req:
    def __init__(self, method, path):
        self.method = method
        self.rel_url = _RelUrl(path)
        self.url = self.rel_url


def _run(coro):
    try:
        coro.send(None)
    except StopIteration as e:
        return e.value
    raise RuntimeError("suspended")


def _handler_for(i):
    async def h(request):
        return None

    h.ident = i
    return h


def build(table, subapp=None):
    """table: list of (template, [methods]).  returns (router, ref resources)"""
    from aiohttp import web
    from refs import ref_router

    app = web.Application()
    refs = []
    for i, (tmpl, methods) in enumerate(table):
        for m in methods:
            app.router.add_route(m, tmpl, _handler_for((i, m)))
        refs.append(ref_router.Res(tmpl, methods, i))
    if subapp:
        prefix, subtable = subapp
        sub = web.Application()
        subrefs = []
        for j, (tmpl, methods) in enumerate(subtable):
            ident = 100 + j
            for m in methods:
                sub.router.add_route(m, tmpl, _handler_for((ident, m)))
            subrefs.append(ref_router.Res(prefix + tmpl, methods, ident))
        app.add_subapp(prefix, sub)
        refs.append(ref_router.SubApp(prefix, subrefs))
    return app.router, refs


def _observe(mi):
    from aiohttp.web_exceptions import HTTPMethodNotAllowed

    exc = mi.http_exception
    if exc is None:
        return ("ok", getattr(mi.route.handler, "ident", None), dict(mi))
    if isinstance(exc, HTTPMethodNotAllowed):
        return ("405", set(exc.allowed_methods))
    return (str(exc.status),)


def _agree(got, want):
    if got[0] != want[0]:
        return False, f"outcome:{got[0]}-vs-{want[0]}"
    if got[0] == "ok":
        if got[1] != want[1]:
            return False, f"wrong-route"
        if set(got[2]) != set(want[2]):
            return False, "match-info-keys"
        return H.fall([sym_eq(got[2][k], want[2][k]) for k in want[2]]), "match-info-values"
    if got[0] == "405":
        return (got[1] == want[1]), "allowed-methods-differ"
    return True, None


def table_check(ctx, table=(), subapp=None, n=4, first_pool=True, small_first=False):
    from refs import ref_router

    router, refs = build(list(table), subapp)
    results = []
    parts = []
    key = None
    trace = []
    for step in range(2):
        if step == 0:
            if not first_pool:
                continue
            path = ctx.pick("p0", REQ_POOL[:6] if small_first else REQ_POOL)
        else:
            k = ctx.choice("plen", n + 1)
            path = "/" + ctx.str("p", k, ALPHABET) if k else "/"
        method = ctx.pick(f"m{step}", METHODS[1:] if (small_first and step == 0) else METHODS)
        got = _observe(_run(router.resolve(_Req(method, path))))
        want = ref_router.resolve(refs, path, method)
        f, k2 = _agree(got, want)
        parts.append(f)
        trace.append((method, path if isinstance(path, str) else "<sym>", got[0], want[0]))
        if f is False and key is None:
            key = k2
            break
        if key is None and f is not True:
            key = k2
    f = H.fall(parts)
    tag = "/".join(t[2] for t in trace)
    info = None
    if f is not True:
        info = {"key": key, "table": [list(t) for t in table], "subapp": subapp}
        if not ctx.symbolic:
            info["trace"] = [list(map(str, t)) for t in trace]
    return f, tag, info

# ---- path-normalising redirects and url_for (concrete strings chosen by the solver: quoting lives in yarl) ----
REDIRECT_PIECES = ["/", "//", "/\\", "\\", "a", "evil.com", "%2F", "%5C", ".", "..", "@", ":", "%09", "b/"]


def normalize_redirect(ctx, npieces=3, first=None):
    """A request target assembled from solver-chosen pieces goes through a real server connection
    with normalize_path_middleware installed; whatever redirect comes back must stay on the site:
    Location starts with exactly one '/' (a browser reads '//x' and '/\\x' as another host)."""
    import asyncio
    import logging

    from aiohttp import web

    from harness.vloop import MemTransport, VLoop, install

    logging.disable(logging.CRITICAL)
    loop = install(VLoop())
    mode = ctx.pick("mode", ["append", "remove", "merge-only", "append-no-merge"])
    mw = web.normalize_path_middleware(append_slash=mode.startswith("append"), remove_slash=mode == "remove",
                                       merge_slashes=mode != "append-no-merge")

    async def h(request):
        return web.Response(text="ok")

    app = web.Application(middlewares=[mw])
    app.router.add_get("/", h)
    app.router.add_get("/{name}/", h)
    app.router.add_get("/a/b", h)
    app.router.add_get("/x/{tail:.*}", h)
    app.router.add_get("/{name}/{second}", h)
    runner = web.AppRunner(app, handle_signals=False, access_log=None)
    asyncio.Task(runner.setup(), loop=loop)
    loop.run_ready()
    proto = runner.server()
    tr = MemTransport()
    proto.connection_made(tr)
    pieces = [first] if first else []
    n = ctx.choice("npieces", npieces) + 1
    for i in range(n - len(pieces)):
        pieces.append(ctx.pick(f"p{i}", REDIRECT_PIECES))
    target = "".join(pieces)
    if not target.startswith("/"):
        target = "/" + target
    query = ctx.pick("query", ["", "?next=//evil.com"])
    proto.data_received(b"GET " + target.encode() + query.encode() + b" HTTP/1.1\r\nHost: site\r\n\r\n")
    loop.run_ready()
    out = bytes(tr.out)
    head = out.split(b"\r\n\r\n")[0].split(b"\r\n")
    status = int(head[0].split(b" ")[1]) if head and head[0].startswith(b"HTTP/") else 0
    loc = None
    for ln in head[1:]:
        if ln.lower().startswith(b"location:"):
            loc = ln.split(b":", 1)[1].strip().decode("latin1")
    info = {"target": target + query, "mode": mode, "status": status, "location": loc}
    if status in (301, 302, 307, 308):
        if loc is None:
            info["key"] = "redirect-without-location"
            return False, "inv:redirect", info
        if not loc.startswith("/") or loc[1:2] in ("/", "\\"):
            info["key"] = "redirect-points-off-site"
            return False, "inv:redirect", info
        return True, "redirect:on-site", None
    if status == 0:
        info["key"] = "no-response-to-request"
        return False, "inv:none", info
    return True, f"status:{status}", None


URLFOR_VALUES = ["v", "a b", "a%20b", "%", "100%", "x?y", "x#y", "a;b", "a+b", "caf\u00e9", "\u20ac", "a=b&c", "~", "a:b", "a@b",
                 "..", ".", "%2F", "a%2Fb", "'", '"', "a\\b", "(x)", "*", "!", "$", ","]


def url_for_inverse(ctx):
    """url_for() and resolution are inverse for parameter values free of '/', '{' and '}'"""
    from aiohttp import web
    from aiohttp.test_utils import make_mocked_request

    from harness.vloop import VLoop, install

    install(VLoop())
    tmpl = ctx.pick("template", ["/u/{v}", "/u/{v}/tail", "/p{v}", "/u/{v}/{w}", r"/r/{v:[^/]+}"])
    v = ctx.pick("v", URLFOR_VALUES)
    w = ctx.pick("w", URLFOR_VALUES) if "{w}" in tmpl else None

    async def h(request):
        return web.Response()

    app = web.Application()
    res = app.router.add_resource(tmpl, name="r")
    res.add_route("GET", h)
    kw = {"v": v}
    if w is not None:
        kw["w"] = w
    url = res.url_for(**kw)
    req = make_mocked_request("GET", url.raw_path_qs if hasattr(url, "raw_path_qs") else str(url), app=app)
    mi = _run(app.router.resolve(req))
    info = {"template": tmpl, "v": v, "w": w, "url": str(url)}
    if mi.http_exception is not None:
        info["key"] = f"url_for-result-does-not-resolve:{mi.http_exception.status}"
        return False, "inv:urlfor", info
    got = dict(mi)
    if got.get("v") != v or (w is not None and got.get("w") != w):
        info.update(key="url_for-resolve-not-inverse", got=got)
        return False, "inv:urlfor", info
    return True, "urlfor:ok", None

def domain_subapps(ctx):
    """Domain-matched sub-applications (alone, two in registration order, and inside a prefix-mounted
    sub-application): a request whose Host matches the first registered matching domain is resolved
    by that sub-application alone (its 404 / 405 is final); every other request by the main table."""
    import fnmatch

    from aiohttp import web
    from aiohttp.test_utils import make_mocked_request

    from harness.vloop import VLoop, install

    install(VLoop())
    shape = ctx.pick("shape", ["one-domain", "two-domains", "mask-then-exact", "domain-inside-prefix-subapp"])

    def mk(tag):
        async def h(request):
            return web.Response(text=tag)
        h.tag = tag
        return h

    def sub(tag, routes):
        a = web.Application()
        for m, p in routes:
            a.router.add_route(m, p, mk(f"{tag}:{m}:{p}"))
        return a

    main = web.Application()
    main.router.add_route("GET", "/x", mk("main:GET:/x"))
    main.router.add_route("GET", "/only-main", mk("main:GET:/only-main"))
    doms = []  # (pattern, tag, routes) in registration order
    info = {"shape": shape}
    try:
        if shape == "one-domain":
            doms = [("a.com", "A", [("POST", "/x"), ("GET", "/y")])]
        elif shape == "two-domains":
            doms = [("a.com", "A", [("GET", "/x")]), ("a.com", "A2", [("GET", "/x"), ("GET", "/y")])]
        elif shape == "mask-then-exact":
            doms = [("*.b.com", "M", [("GET", "/{v}")]), ("x.b.com", "X", [("GET", "/x")])]
        if shape == "domain-inside-prefix-subapp":
            inner = sub("I", [("GET", "/i")])
            mid = web.Application()
            mid.add_domain("a.com", inner)
            mid.router.add_route("GET", "/m", mk("mid:GET:/m"))
            main.add_subapp("/api", mid)
        else:
            for pat, tag, routes in doms:
                main.add_domain(pat, sub(tag, routes))
    except Exception as e:  # noqa: BLE001
        info["key"] = f"route-table-cannot-be-built:{type(e).__name__}:{shape}"
        info["detail"] = str(e)[:200]
        return False, "inv:domain", info
    host = ctx.pick("host", ["a.com", "x.b.com", "b.com", "c.com", None, "x.b.com.evil.org", "x.b.com:8080", "a.com.evil.org",
                             "evil.a.com"])
    path = ctx.pick("path", ["/x", "/y", "/only-main", "/api/i", "/api/m", "/i"])
    method = ctx.pick("method", ["GET", "POST"])
    req = make_mocked_request(method, path, headers={} if host is None else {"Host": host}, app=main)
    mi = _run(main.router.resolve(req))
    if mi.http_exception is not None:
        got = str(mi.http_exception.status)
    else:
        got = getattr(mi.handler, "tag", "?")
    # ---- the documented rule
    def table(routes, tag):
        ms = {m for m, p in routes if _m(p, path)}
        for m, p in routes:
            if _m(p, path) and m == method:
                return f"{tag}:{m}:{p}"
        return "405" if ms else "404"

    def _m(pattern, pth):
        if "{" in pattern:
            return pth.count("/") == 1 and len(pth) > 1
        return pattern == pth

    want = None
    if shape != "domain-inside-prefix-subapp":
        for pat, tag, routes in doms:
            if host is not None and fnmatch.fnmatchcase(host, pat):
                want = table(routes, tag)
                break
        if want is None:
            want = table([("GET", "/x"), ("GET", "/only-main")], "main")
    else:
        if path.startswith("/api/") or path == "/api":
            # the prefix belongs to the mounted application; inside it the domain rule comes first
            if host == "a.com":
                want = "I:GET:/i" if (path == "/api/i" and method == "GET") else ("405" if path == "/api/i" else "404")
            else:
                want = "mid:GET:/m" if (path == "/api/m" and method == "GET") else ("405" if path == "/api/m" else "404")
        else:
            want = table([("GET", "/x"), ("GET", "/only-main")], "main")
    info.update(host=host, path=path, method=method, got=got, want=want)
    if got != want:
        info["key"] = f"domain-dispatch-differs:{shape}"
        return False, "inv:domain", info
    return True, "domain:" + ("err" if got in ("404", "405") else "ok"), None


def twin(ctx):
    f, tag, info = table_check(ctx, table=[("/a", ["GET"]), ("/{v}", ["POST"])], n=2)
    return False, tag, {"key": "twin"}


def _tables(k, pool):
    for combo in itertools.permutations(pool, k):
        yield [(t, [METHODS[i % 2]] if i < 2 else ["GET", "POST"]) for i, t in enumerate(combo)]


def jobs(tier):
    quick = tier == "quick"
    lim = {"time_limit": 60 if quick else 600}
    out = []
    n = 3 if quick else 5
    pool = POOL if not quick else POOL
    i = 0
    for tb in _tables(2, pool):
        i += 1
        out.append(dict(name=f"t2-{i}", func="table_check", params=dict(table=tb, n=n, small_first=quick), limits=lim))
    if not quick:
        small = ["/a", "/a/{v}", r"/a/{v:\d+}", "/{v}", "/a{v}", "/a/{tail:.*}", "/a/b"]
        for tb in _tables(3, small):
            i += 1
            out.append(dict(name=f"t3-{i}", func="table_check", params=dict(table=tb, n=4), limits=lim))
    subs = [
        ([("/{tail:.*}", ["GET"])], ("/a", [("/b", ["POST"]), ("/{v}", ["GET"])])),
        ([("/a/b", ["GET"]), ("/a/{v}", ["DELETE"])], ("/a", [("/b", ["POST"])])),
        ([("/a", ["GET"])], ("/a/b", [("/", ["GET"]), ("/{v:\\d+}", ["POST"])])),
    ]
    for j, (tb, sa) in enumerate(subs):
        out.append(dict(name=f"sub-{j}", func="table_check", params=dict(table=tb, subapp=sa, n=n), limits=lim))
    # a catch-all ("*") route registered after a method-specific one on the same resource
    anys = [
        [("/a/{v}", ["GET", "*"]), ("/a/b", ["POST"])],
        [("/a", ["POST", "*"]), ("/{v}", ["GET"])],
        [("/{v}", ["DELETE"]), ("/a/{v}", ["GET", "*"])],
    ]
    for j, tb in enumerate(anys):
        out.append(dict(name=f"any-{j}", func="table_check", params=dict(table=tb, n=n), limits=lim))
    for pc in REDIRECT_PIECES:
        out.append(dict(name=f"redirect-{REDIRECT_PIECES.index(pc)}", func="normalize_redirect",
                        params=dict(npieces=3 if quick else 4, first=pc), limits=lim))
    out.append(dict(name="url-for", func="url_for_inverse", params={}, limits=lim))
    out.append(dict(name="domain-subapps", func="domain_subapps", params={}, limits=lim))
    return out


def twins(tier):
    return [dict(name="twin", func="twin", params={}, limits={"time_limit": 30, "max_paths": 30})]


REQUIRED_OUTCOMES = ("ok/ok", "404", "405", "redirect:on-site", "urlfor:ok")


def bounds(tier):
    return {"templates": POOL, "tables": "all ordered pairs of 12 templates (132 tables, quick); plus all ordered triples of 7 templates (210, thorough); 3 sub-application tables",
            "requests": "first: solver-chosen from 6 concrete paths x 2 methods (quick) / 11 x 3; second: '/' + 0..3 (quick) / 0..5 symbolic characters over '/ab1%2F{.' x 3 methods",
            "methods": METHODS}

"""C11 WebSocket codec round trip (uncompressed codec; per-message deflate is FFI).

Real code: WebSocketWriter.send_frame/_write_websocket_frame/close  ->  in-memory
wire  ->  WebSocketReader.feed_data/_feed_data/_handle_frame, WebSocketDataQueue.
Oracle: identity of the message sequence.
"""
from __future__ import annotations

from harness import common as H
from symx import core
from symx.core import SInt, SSeq, sym_eq

PID = "C11"
EXPLANATION = (
    "A solver-chosen sequence of 1-3 messages (opcode text/binary/ping/pong/close, payloads of 0-3 fully symbolic "
    "bytes or boundary-sized payloads with symbolic edge bytes, symbolic close code, mask on/off with a fully symbolic "
    "32-bit mask per frame) is sent through the real WebSocketWriter; the bytes it hands to the transport are cut at "
    "solver-chosen positions and fed to the real WebSocketReader. Per path z3 decides that the messages received equal "
    "the messages sent (type, payload, close code/reason), that nothing else is delivered and no error is raised. Compression: "
    "a solver-chosen script of sends (small = synchronous path, large = executor path under lock and shield; with or "
    "without a per-message compress= override; from several tasks, optionally in the same loop iteration) and "
    "cancellations runs on the real writer with contract-stub compressors; the wire is read back by the real reader "
    "with a contract-stub inflater: every completed send is received intact exactly once and the stream stays decodable.")
ASSUMPTIONS = [
    "_websocket_mask_python is replaced by the XOR model mask[i % 4] ^ data[i]; equivalence of the real table/slice implementation with that model is checked exhaustively on concrete data by the lemma 'ws-mask-table' (65536 table entries, all alignments)",
    "random.getrandbits(32) is an arbitrary 32-bit value (symbolic)",
    "per-message deflate: zlib itself is a C library behind FFI; compressor and inflater are replaced by contract stubs that carry zlib's context dependency (the output of a compressor names the messages it has consumed since it was created or fully flushed; the inflater resolves that only against the tail of what it has inflated). What the bytes of a deflate stream look like, window sizes and compression levels are outside the claim; which compressor object sees which message in which order - context takeover, per-message compress= override, the 16 KiB sync/executor threshold, lock and shield under concurrent senders and cancellation - is decided",
    "transport is an in-memory recorder that never pauses the writer",
]
TRUSTED = ["XOR model of the masking function (lemma-checked)", "contract stubs _CStub/_DStub for zlib's context dependency"]

NON_ASCII_TEXTS = ["\u00e9", "\u20acx", "\U0001f600"]
OPC = {"text": 1, "binary": 2, "ping": 9, "pong": 10, "close": 8}
VALID_CLOSE = [1000, 1001, 1002, 1003, 1007, 1008, 1009, 1010, 1011, 1012, 1013, 1014]


class _Tr:
    def __init__(self):
        self.out = b""
        self.writes = 0

    def write(self, d):
        self.out = self.out + d
        self.writes += 1

    def is_closing(self):
        return False


class _WProto:
    _paused = False

    async def _drain_helper(self):
        return None


class _Rand:
    def __init__(self, ctx):
        self.ctx = ctx
        self.n = 0

    def getrandbits(self, k):
        self.n += 1
        return self.ctx.int(f"mask{self.n}", 0, 2 ** k - 1, bits=k)


class _RProto:
    def __init__(self):
        self._reading_paused = False

    def pause_reading(self):
        self._reading_paused = True

    def resume_reading(self):
        self._reading_paused = False


def run_sync(coro):
    try:
        coro.send(None)
    except StopIteration as e:
        return e.value
    raise RuntimeError("coroutine suspended: writer waited for drain in a harness that never pauses")


def _read_all(chunks, decode_text):
    from aiohttp._websocket.reader_py import WebSocketDataQueue, WebSocketReader

    proto = _RProto()
    q = WebSocketDataQueue(proto, 2 ** 20, loop=None)
    r = WebSocketReader(q, 4 * 1024 * 1024, False, decode_text)
    for c in chunks:
        r.feed_data(c)
    msgs = [(int(m.type), m.data, m.extra) for m in q._buffer]
    return msgs, q._exception, len(r._tail) + len(r._partial) + sum(len(x) for x in r._payload_fragments)


def roundtrip(ctx, nmsg=2, maxlen=2, ncuts=1, kinds=("text", "binary", "ping", "pong", "close"), first=None,
              text_domain=None):
    from aiohttp._websocket.writer import WebSocketWriter

    use_mask = ctx.flag("use_mask")
    decode_text = ctx.flag("decode_text")
    tr = _Tr()
    w = WebSocketWriter(_WProto(), tr, use_mask=use_mask, random=_Rand(ctx))
    sent = []
    for i in range(nmsg):
        kind = first if (i == 0 and first) else ctx.pick(f"kind{i}", list(kinds))
        n = ctx.choice(f"len{i}", maxlen + 1)
        if kind == "text":
            # symbolic ASCII text, or one of a few concrete non-ASCII strings (2-, 3-, 4-byte
            # sequences): symbolic multi-byte code points make every decode step a
            # div/mod query (measured 90 ms each) without adding codec behaviour
            alt = ctx.choice(f"txt{i}", 1 + len(NON_ASCII_TEXTS))
            if alt == 0:
                s = ctx.str(f"t{i}", n, text_domain or range(0, 128))
            else:
                s = NON_ASCII_TEXTS[alt - 1]
                n = len(s)
            payload = s.encode("utf-8") if n else b""
            # surrogates cannot be encoded by a sender: ws.send_str would fail before the codec
            run_sync(w.send_frame(payload, 1))
            sent.append((1, s if decode_text else payload, None) if n else (1, "" if decode_text else b"", None))
        elif kind == "close":
            # any close code a peer may legitimately send: one symbolic integer
            code = ctx.int(f"code{i}", 1000, 4999)
            if ctx.symbolic:
                ctx.assume(core.disj([core.in_ranges(code, core.ranges_of(VALID_CLOSE)), core.E(code >= 3000)]))
            elif not (code in VALID_CLOSE or code >= 3000):
                raise core.Abort()
            reason = ctx.bytes(f"r{i}", n, range(0x20, 0x7F))
            run_sync(w.close(code, reason))
            sent.append((8, code, reason.decode("ascii") if n else ""))
            break  # nothing may be sent after close
        else:
            payload = ctx.bytes(f"p{i}", n)
            run_sync(w.send_frame(payload, OPC[kind]))
            sent.append((OPC[kind], payload, None))
    wire = tr.out
    cuts = H.cut_points(ctx, "cut", len(wire), ncuts)
    got, exc, retained = _read_all(H.pieces(wire, cuts), decode_text)
    parts = [exc is None, retained == 0, len(got) == len(sent)]
    key = None
    if exc is not None:
        key = f"reader-error:{type(exc).__name__}:{getattr(exc, 'code', '')}"
    elif len(got) != len(sent):
        key = f"message-count:{len(got)}-vs-{len(sent)}"
    elif retained != 0:
        key = "bytes-left-in-reader"
    else:
        for a, b in zip(got, sent):
            if a[0] != b[0]:
                parts.append(False)
                key = key or "type-mismatch"
                continue
            parts.append(sym_eq(a[1], b[1]))
            parts.append(sym_eq(a[2], b[2]) if not (a[2] is None or b[2] is None) else (a[2] or None) == (b[2] or None))
    f = H.fall(parts)
    tag = "+".join(str(m[0]) for m in sent) + ("/mask" if use_mask else "")
    info = None
    if f is not True:
        info = {"key": key or "payload-mismatch", "cuts": cuts}
        if not ctx.symbolic:
            info.update(wire=bytes(wire).hex(), sent=repr(sent)[:300], got=repr(got)[:300])
    return f, tag, info


def boundary(ctx, size=126, kind="binary", use_mask=False, ncuts=2):
    """payload of a length at a header-format boundary: concrete filler, symbolic
    first/last two bytes; symbolic cuts anywhere in the wire image"""
    from aiohttp._websocket.writer import WebSocketWriter

    tr = _Tr()
    w = WebSocketWriter(_WProto(), tr, use_mask=use_mask, random=_Rand(ctx) if size < 300 else __import__("random").Random(7))
    edge = ctx.bytes("e", 4)
    payload = edge[:2] + bytes((i * 7 + 3) % 251 for i in range(size - 4)) + edge[2:] if size >= 4 else ctx.bytes("e", size)
    run_sync(w.send_frame(payload, OPC[kind]))
    wire = tr.out
    # cut positions: symbolic among header region and tail region
    L = len(wire)
    cand = sorted(set(list(range(0, min(L, 16))) + list(range(max(0, L - 4), L + 1))))
    c1 = ctx.pick("c1", cand)
    c2 = ctx.pick("c2", [c for c in cand if c >= c1])
    got, exc, retained = _read_all(H.pieces(wire, [c1, c2]), False)
    ok = exc is None and retained == 0 and len(got) == 1 and got[0][0] == OPC[kind]
    f = H.fall([ok, sym_eq(got[0][1], payload) if ok else False])
    info = None if f is True else {"key": f"boundary-size-{size}", "cuts": [c1, c2]}
    return f, f"size{size}", info

# ---- per-message deflate under a contract stub: context takeover, lock / shield, cancellation --------
def _d(data):
    return (len(data) * 7 + (data[0] if len(data) else 0) + 1) % 251


def _fold(ds):
    h = 0
    for x in ds:
        h = (h * 31 + x + 1) % 251
    return h


class _CStub:
    """Contract stub for ZLibCompressor (zlib is FFI).  A deflate stream may refer back to what the
    same compressor has consumed since it was created or last fully flushed; the stub makes that
    dependency explicit: its output starts with two bytes naming that history (how many messages,
    and a digest of them)."""

    instances = []

    def __init__(self, level=None, wbits=None, max_sync_chunk_size=None, **kw):
        self.msgs = []
        _CStub.instances.append(self)

    def compress_sync(self, data):
        out = bytes([len(self.msgs), _fold(self.msgs)]) + bytes(data)
        self.msgs.append(_d(data))
        return out

    async def compress(self, data):
        import asyncio

        ref = bytes([len(self.msgs), _fold(self.msgs)])
        await asyncio.sleep(0)  # the executor hop of large payloads
        self.msgs.append(_d(data))
        return ref + bytes(data)

    def flush(self, mode=None):
        from aiohttp.compression_utils import ZLibBackend

        if mode == ZLibBackend.Z_FULL_FLUSH:
            self.msgs = []  # no context takeover: the next message starts from an empty window
        return b"\x00\x00\xff\xff"


class _DStub:
    """Contract stub for the peer's inflater: a reference to the last n messages resolves only if
    those are the last n messages it has itself inflated (its window holds everything since the
    connection began, RFC 7692 context takeover)."""

    def __init__(self, **kw):
        self.msgs = []
        self.errors = 0

    def decompress_sync(self, data, max_length=0):
        data = bytes(data)
        if data.endswith(b"\x00\x00\xff\xff"):
            data = data[:-4]
        if len(data) < 2:
            return b""
        n, dg, payload = data[0], data[1], data[2:]
        if n > len(self.msgs) or _fold(self.msgs[len(self.msgs) - n:]) != dg:
            self.errors += 1
            raise ValueError("invalid distance too far back")  # what zlib says for a dangling back-reference
        self.msgs.append(_d(payload))
        return payload

    @property
    def data_available(self):
        return False


def compressed(ctx, k=5, nsenders=2):
    """Messages are sent through the real WebSocketWriter with per-message deflate negotiated, from
    several tasks, small (synchronous path) and large (executor path under lock + shield), with an
    optional per-message compress= override and with cancellation of a sender; the bytes on the wire
    are read back by the real WebSocketReader.  Compressor and inflater are contract stubs that carry
    zlib's context dependency.  Every message whose send completed is received intact, exactly once,
    and the stream never becomes undecodable."""
    import asyncio

    from aiohttp import WSMsgType
    from aiohttp._websocket import reader_py, writer as writer_mod
    from aiohttp._websocket.reader_py import WebSocketDataQueue, WebSocketReader
    from aiohttp._websocket.writer import WebSocketWriter
    from aiohttp.base_protocol import BaseProtocol

    from harness.vloop import MemTransport, VLoop, install

    loop = install(VLoop())
    _CStub.instances = []
    writer_mod.ZLibCompressor = _CStub
    reader_py.ZLibDecompressor = _DStub
    notakeover = ctx.flag("no_context_takeover")
    use_mask = False  # (masking is what the uncompressed round trip decides)
    tr = MemTransport()
    proto = BaseProtocol(loop)
    proto.connection_made(tr)
    w = WebSocketWriter(proto, tr, use_mask=use_mask, compress=15, notakeover=notakeover)
    BIG = writer_mod.WEBSOCKET_MAX_SYNC_CHUNK_SIZE + 1
    sends = []  # dict(task, payload, cancelled)
    trace = []

    async def send(payload, override):
        await w.send_frame(payload, WSMsgType.BINARY, compress=override)

    for i in range(k):
        enabled = []
        if len(sends) < nsenders + 2:
            enabled += [("send", "small", None), ("send", "large", None), ("send", "small", 9), ("send", "large", 9)]
        for j, sd in enumerate(sends):
            if not sd["task"].done() and not sd["cancelled"]:
                enabled.append(("cancel", j))
        enabled.append(("tick",))
        op = ctx.pick(f"op{i}", enabled)
        trace.append(list(op))
        if op[0] == "send":
            n = len(sends)
            payload = bytes([65 + n]) * (3 if op[1] == "small" else BIG)
            sends.append({"task": asyncio.Task(send(payload, op[2]), loop=loop), "payload": payload, "cancelled": False})
            if ctx.flag(f"same_iteration{i}"):
                continue
        elif op[0] == "cancel":
            sends[op[1]]["task"].cancel()
            sends[op[1]]["cancelled"] = True
        loop.run_ready()
    loop.run_ready()
    loop.advance(1)
    info = {"trace": trace, "no_context_takeover": notakeover}
    for j, sd in enumerate(sends):
        if not sd["task"].done():
            info["key"] = "send-never-completes"
            return False, "inv:z", info
    q = WebSocketDataQueue(proto, 2 ** 22, loop=loop)
    r = WebSocketReader(q, 0, True, False)
    wire = bytes(tr.out)
    if use_mask:
        # the reader of the peer unmasks; frames are independent, the real reader does it
        pass
    r.feed_data(wire)
    got = [bytes(m.data) for m in q._buffer if int(m.type) == 2]
    if q._exception is not None:
        shape = (":after-per-message-compress-override" if any(t[0] == "send" and t[2] for t in trace) and not notakeover else "") + \
            (":with-cancelled-sender" if any(t[0] == "cancel" for t in trace) else "")
        info.update(key="compressed-stream-undecodable" + shape, received=len(got), sent=len(sends),
                    overrides=[t[2] for t in trace if t[0] == "send"])
        return False, "inv:z", info
    done_ok = [sd["payload"] for sd in sends if not sd["task"].cancelled() and sd["task"].exception() is None]
    for pl in done_ok:
        if got.count(pl) != 1:
            info.update(key="completed-send-not-received-exactly-once", count=got.count(pl), size=len(pl))
            return False, "inv:z", info
    allowed = [sd["payload"] for sd in sends]
    for g in got:
        if g not in allowed:
            info.update(key="received-message-differs-from-any-sent", size=len(g))
            return False, "inv:z", info
    if len(got) > len(sends):
        info.update(key="more-messages-received-than-sent")
        return False, "inv:z", info
    return True, f"z:{len(got)}of{len(sends)}", None


def twin(ctx):
    f, tag, info = roundtrip(ctx, nmsg=1, maxlen=1)
    return False, tag, {"key": "twin"}


def setup_models():
    H.model_ws_mask()


def lemmas(tier):
    """static-table lemma for the masking function (concrete exhaustive: the table is data)"""
    import sys
    import time

    sys.path.insert(0, __import__("os").environ.get("VERIF_REPO_ROOT", "/repo"))
    t0 = time.time()
    out = {"name": "ws-mask-table", "solver": "exhaustive-concrete", "status": "unsat"}
    try:
        from aiohttp._websocket import helpers

        tab = helpers._xor_table()
        bad = [(m, d) for m in range(256) for d in range(256) if tab[m][d] != (m ^ d)]
        if bad:
            out.update(status="sat", witness=bad[:3])
        else:
            # slicing/alignment logic of the real function on all lengths 0..9 and 4 distinct mask bytes
            import itertools

            for n in range(0, 10):
                for mask in (b"\x01\x02\x04\x08", b"\xff\x00\xaa\x55"):
                    for data in (bytes(range(n)), bytes((255 - i) for i in range(n))):
                        ba = bytearray(data)
                        helpers._websocket_mask_python(mask, ba)
                        if bytes(ba) != bytes(c ^ mask[i % 4] for i, c in enumerate(data)):
                            out.update(status="sat", witness=[n, mask.hex(), data.hex()])
    except Exception as e:  # noqa: BLE001
        out.update(status="error", detail=repr(e))
    out["time_s"] = round(time.time() - t0, 3)
    return [out]


def jobs(tier):
    quick = tier == "quick"
    lim = {"time_limit": 100 if quick else 1500}
    out = []
    kinds = ("text", "binary", "ping", "pong", "close")
    for k in kinds:
        out.append(dict(name=f"rt-2-{k}", func="roundtrip",
                        params=dict(nmsg=2, maxlen=2 if quick else 3, ncuts=1, first=k), limits=lim))
    if not quick:
        for k in kinds:
            out.append(dict(name=f"rt-3-{k}", func="roundtrip", params=dict(nmsg=3, maxlen=1, ncuts=2, first=k),
                            limits=lim))
    for size in (125, 126, 127) + (() if quick else (65535, 65536)):
        for m in (False, True):
            out.append(dict(name=f"size-{size}-{'mask' if m else 'plain'}", func="boundary",
                            params=dict(size=size, use_mask=m), limits=lim))
    out.append(dict(name="deflate-contract", func="compressed", params=dict(k=4 if quick else 6, nsenders=2 if quick else 3),
                    limits=lim))
    return out


def twins(tier):
    return [dict(name="twin", func="twin", params={}, limits={"time_limit": 30, "max_paths": 30})]


REQUIRED_OUTCOMES = ("1+", "2+", "9+", "8", "size126", "z:")


def bounds(tier):
    return {"messages": "2 per sequence (quick), up to 3 (thorough); each opcode as first message, later ones solver-chosen",
            "payload": "0..2 symbolic bytes (quick) / 0..3 (all 256 values); text payloads: symbolic ASCII of that length or one of 3 concrete non-ASCII strings",
            "close": "code solver-chosen from the registered codes or symbolic in 3000..4999; reason 0..2 printable ASCII bytes",
            "mask": "use_mask symbolic; each frame's 32-bit mask fully symbolic",
            "boundary_sizes": "125,126,127 (quick) + 65535,65536 (thorough, concrete mask): symbolic first/last 2 payload bytes, 2 symbolic cuts in header/tail region",
            "cuts": "1 symbolic cut (2-message runs), 2 symbolic cuts (3-message runs)",
            "compression": "scripts of 4 (quick) / 6 steps over {send small/large x override none/9, cancel a pending sender, tick}, each send optionally in the same loop iteration as the next step; context takeover on/off; contract-stub compressor/inflater"}

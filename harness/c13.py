"""C13 WebSocket sessions close cleanly in every interleaving.

Real code: web_ws.WebSocketResponse (prepare/receive/close/send_*/heartbeat/pong
timeout), client_ws.ClientWebSocketResponse (same), WebSocketWriter, WebSocketReader,
WebSocketDataQueue, RequestHandler / ResponseHandler - all real, on a virtual-time loop
with in-memory transports and a scripted peer.
"""
from __future__ import annotations

import asyncio
import base64
import hashlib

from harness.vloop import MemTransport, VLoop, install
from symx import core

PID = "C13"
EXPLANATION = (
    "Server side: a real web.Application handler upgrades a request to a WebSocketResponse (heartbeat and close timeout "
    "solver-chosen) and runs receive() in a loop (task A); the script, chosen by the solver step by step from the "
    "enabled operations, lets the peer send a text frame / ping / close frame (code 1000 or 4001) / a protocol-violating "
    "frame / drop the connection, lets a second application task call close() or send_str(), cancels task A, or advances "
    "virtual time. Client side: the same script alphabet against ClientWebSocketResponse obtained through the real "
    "ws_connect handshake. At the end the peer drops the connection (if still open) and time runs past every timeout: "
    "receive() has returned a terminal message or raised, close() returned within the close timeout (+1 s rounding), at "
    "most one close frame was written and no data frame after it, the transport is closed once the session is closed, "
    "and close_code is the peer's code after a clean handshake and 1006 after an abnormal end.")
ASSUMPTIONS = [
    "no per-message deflate (compress=False): zlib is FFI",
    "virtual time (harness/vloop.py); the peer is scripted on an in-memory transport",
    "masking key of the client is whatever random produces (content irrelevant to the close protocol)",
]
TRUSTED = ["harness/vloop.py"]

GUID = b"258EAFA5-E914-47DA-95CA-C5AB0DC85B11"


def frame(op, payload=b"", fin=True, masked=False):
    b0 = (0x80 if fin else 0) | op
    n = len(payload)
    hdr = bytes([b0, (0x80 if masked else 0) | n])
    if masked:
        mask = b"\x01\x02\x03\x04"
        return hdr + mask + bytes(c ^ mask[i % 4] for i, c in enumerate(payload))
    return hdr + payload


def parse_frames(data, masked):
    """frames written by aiohttp -> list of (opcode, payload)"""
    out = []
    pos = 0
    while pos + 2 <= len(data):
        b0, b1 = data[pos], data[pos + 1]
        n = b1 & 0x7F
        pos += 2
        if n == 126:
            n = int.from_bytes(data[pos:pos + 2], "big")
            pos += 2
        mask = None
        if b1 & 0x80:
            mask = data[pos:pos + 4]
            pos += 4
        payload = data[pos:pos + n]
        pos += n
        if mask:
            payload = bytes(c ^ mask[i % 4] for i, c in enumerate(payload))
        out.append((b0 & 0x0F, payload))
    return out


def session(ctx, side="server", k=4, first=(), modes=("loop",)):
    import logging

    import aiohttp
    from aiohttp import web

    logging.disable(logging.CRITICAL)
    loop = install(VLoop())
    heartbeat = ctx.pick("heartbeat", [None, 4.0])
    close_timeout = ctx.pick("close_timeout", [2.0, 10.0])
    state = {"ws": None, "received": [], "a_done": False, "a_error": None, "self_close": None}
    trace = []
    # the application either keeps receiving, or answers the first data message by closing the session itself
    handler_mode = ctx.pick("handler_mode", list(modes))

    async def receive_loop(ws):
        try:
            while True:
                msg = await ws.receive()
                state["received"].append((int(msg.type), msg.data if not isinstance(msg.data, BaseException) else "exc"))
                if msg.type in (aiohttp.WSMsgType.CLOSE, aiohttp.WSMsgType.CLOSING, aiohttp.WSMsgType.CLOSED,
                                aiohttp.WSMsgType.ERROR):
                    break
                if handler_mode != "loop" and msg.type == aiohttp.WSMsgType.TEXT:
                    t0 = loop.time()
                    state["self_close"] = "pending"
                    try:
                        await ws.close()
                    except asyncio.CancelledError:
                        state["self_close"] = "cancelled"  # the task was cancelled while closing: that ends close() too
                        raise
                    state["self_close"] = loop.time() - t0
                    break
        except asyncio.CancelledError:
            state["a_error"] = "cancelled"
            raise
        except Exception as e:  # noqa: BLE001
            state["a_error"] = type(e).__name__
        finally:
            state["a_done"] = True

    tr = MemTransport()
    if side == "server":
        async def handler(request):
            ws = web.WebSocketResponse(heartbeat=heartbeat, timeout=close_timeout, compress=False)
            await ws.prepare(request)
            state["ws"] = ws
            state["a_task"] = asyncio.current_task()
            await receive_loop(ws)
            return ws

        app = web.Application()
        app.router.add_get("/ws", handler)
        runner = web.AppRunner(app, handle_signals=False, access_log=None)
        asyncio.Task(runner.setup(), loop=loop)
        loop.run_ready()
        proto = runner.server()
        proto.connection_made(tr)
        proto.data_received(b"GET /ws HTTP/1.1\r\nHost: x\r\nConnection: Upgrade\r\nUpgrade: websocket\r\n"
                            b"Sec-WebSocket-Version: 13\r\nSec-WebSocket-Key: dGhlIHNhbXBsZSBub25jZQ==\r\n\r\n")
        loop.run_ready()
        if state["ws"] is None:
            return False, "handshake-failed", {"key": "server-handshake-failed", "out": bytes(tr.out).decode("latin1")[:300]}
        hdr_end = bytes(tr.out).index(b"\r\n\r\n") + 4
        peer_masked = True
    else:
        from aiohttp.client_proto import ResponseHandler
        from aiohttp.connector import BaseConnector

        holder = {}

        class Conn(BaseConnector):
            async def _create_connection(self, req, traces, timeout):
                p = ResponseHandler(loop)
                p.connection_made(tr)
                holder["proto"] = p
                return p

        async def mk():
            return aiohttp.ClientSession(connector=Conn())

        sess = loop.run_until_complete(mk())

        async def client_main():
            ws = await sess.ws_connect("http://x/ws", heartbeat=heartbeat, timeout=aiohttp.ClientWSTimeout(ws_close=close_timeout),
                                       compress=0)
            state["ws"] = ws
            try:
                await receive_loop(ws)
            finally:
                # what `async with session.ws_connect(...)` does on the way out, also after an error
                await ws.close()

        a = asyncio.Task(client_main(), loop=loop)
        state["a_task"] = a
        loop.run_ready()
        req = bytes(tr.out)
        key = [ln.split(b":", 1)[1].strip() for ln in req.split(b"\r\n") if ln.lower().startswith(b"sec-websocket-key")][0]
        accept = base64.b64encode(hashlib.sha1(key + GUID).digest())
        proto = holder["proto"]
        proto.data_received(b"HTTP/1.1 101 Switching Protocols\r\nUpgrade: websocket\r\nConnection: upgrade\r\n"
                            b"Sec-WebSocket-Accept: " + accept + b"\r\n\r\n")
        loop.run_ready()
        if state["ws"] is None:
            return False, "handshake-failed", {"key": "client-handshake-failed"}
        hdr_end = len(req)
        peer_masked = False
    ws = state["ws"]
    ponging = {"on": True, "seen": 0}

    def peer_autopong():
        """a correct peer answers pings (until the script makes it unresponsive)"""
        if tr.closed or not ponging["on"]:
            return
        frames = parse_frames(bytes(tr.out)[hdr_end:], masked=(side == "client"))
        for op_, payload in frames[ponging["seen"]:]:
            if op_ == 9:
                proto.data_received(frame(10, payload, masked=peer_masked))
        ponging["seen"] = len(frames)

    def advance(dt):
        t = 0.0
        while t < dt:
            loop.advance(0.5)
            t += 0.5
            peer_autopong()
            loop.run_ready()

    b_tasks = []
    close_calls = []  # (task, t_start)
    peer_close_code = None
    we_closed_first = False
    dropped = False

    def fail(key, **kw):
        info = {"key": f"{key}:{side}", "trace": trace, "heartbeat": heartbeat, "close_timeout": close_timeout, "handler_mode": handler_mode,
                "received": [list(map(str, r)) for r in state["received"]]}
        info.update(kw)
        return False, "inv:" + key, info

    async def do_close():
        t0 = loop.time()
        r = await ws.close()
        return r, loop.time() - t0

    async def do_send():
        try:
            await ws.send_str("hello")
            return "sent"
        except Exception as e:  # noqa: BLE001
            return type(e).__name__

    for i in range(k):
        enabled = []
        if not dropped:
            enabled += [("peer", "text"), ("peer", "ping"), ("peer", "close1000"), ("peer", "close4001"),
                        ("peer", "garbage"), ("peer", "drop")]
            if ponging["on"] and heartbeat:
                enabled.append(("peer", "unresponsive"))
            if heartbeat:
                # a data frame that arrives in the very loop iteration in which the next timer is due
                enabled.append(("peer", "text@timer"))
        enabled += [("app", "close"), ("app", "send"), ("advance", 1), ("advance", 5), ("advance", 20)]
        if not state["a_done"]:
            enabled.append(("app", "cancel-receiver"))
        op = tuple(first[i]) if i < len(first) else ctx.pick(f"op{i}", enabled)
        if op not in enabled:
            break
        trace.append(list(op))
        if op[0] == "peer":
            try:
                if op[1] == "text":
                    proto.data_received(frame(1, b"hi", masked=peer_masked))
                elif op[1] == "text@timer":
                    loop.io_at_next_timer(lambda: proto.data_received(frame(1, b"hi", masked=peer_masked)), horizon=30.0)
                elif op[1] == "ping":
                    proto.data_received(frame(9, b"p", masked=peer_masked))
                elif op[1].startswith("close"):
                    code = int(op[1][5:])
                    if peer_close_code is None:
                        peer_close_code = code
                    proto.data_received(frame(8, code.to_bytes(2, "big"), masked=peer_masked))
                elif op[1] == "garbage":
                    proto.data_received(frame(3, b"", masked=peer_masked))
                elif op[1] == "unresponsive":
                    ponging["on"] = False
                elif op[1] == "drop":
                    dropped = True
                    proto.connection_lost(None)
                    tr.closed = True
            except Exception as e:  # noqa: BLE001
                return fail(f"exception-escapes-data_received:{type(e).__name__}")
        elif op[0] == "app":
            if op[1] == "close":
                if peer_close_code is None and not close_calls:
                    we_closed_first = True
                close_calls.append([asyncio.Task(do_close(), loop=loop), loop.time()])
            elif op[1] == "send":
                b_tasks.append(asyncio.Task(do_send(), loop=loop))
            else:
                state["a_task"].cancel()
        else:
            advance(op[1])
        # the next event may fall into the same loop iteration (nothing that became ready has run yet)
        if op[0] != "advance" and i + 1 < k and ctx.flag(f"same_iteration{i}"):
            trace[-1].append("no-tick")
            continue
        loop.run_ready()
        peer_autopong()
        loop.run_ready()
        if loop.exc:
            return fail("loop-exception-handler-called", exc=str(loop.exc[0].get("exception"))[:200])
    # ---- the end: peer goes away if still there, time runs past every timeout
    advance(0.5)
    if not dropped and not tr.closed:
        # give the session the chance to finish by itself first (heartbeat / close timeout)
        advance(close_timeout + 1)
    if heartbeat and not dropped and not tr.closed and not state["a_done"]:
        # the peer goes silent without closing: with a heartbeat configured the session has to notice
        # by itself (ping, no pong within heartbeat/2) - that is what keeps receive() from blocking forever
        ponging["on"] = False
        advance(3 * heartbeat + 2)
        if not tr.closed:
            return fail("silent-peer-not-detected-by-heartbeat")
    if not tr.closed and not dropped:
        proto.connection_lost(None)
        tr.closed = True
        dropped = True
    loop.advance(60)
    loop.run_ready()
    if loop.exc:
        return fail("loop-exception-handler-called", exc=str(loop.exc[0].get("exception"))[:200])
    if state["self_close"] == "pending":
        return fail("close-never-returns", who="handler")
    if isinstance(state["self_close"], float) and state["self_close"] > close_timeout + 1.01:
        return fail("close-exceeds-timeout", took=state["self_close"], who="handler")
    if not state["a_done"]:
        return fail("receive-blocked-forever")
    for t, t0 in close_calls:
        if not t.done():
            return fail("close-never-returns")
        if t.exception() is None:
            _r, took = t.result()
            if took > close_timeout + 1.01:
                return fail("close-exceeds-timeout", took=took)
    written = parse_frames(bytes(tr.out)[hdr_end:], masked=(side == "client"))
    closes = [i for i, (op_, _p) in enumerate(written) if op_ == 8]
    if len(closes) > 1:
        return fail("more-than-one-close-frame", frames=[(o, p.hex()) for o, p in written])
    if closes and any(op_ in (1, 2, 0) for op_, _p in written[closes[0] + 1:]):
        return fail("data-frame-after-close-frame")
    if ws.closed and not tr.closed:
        return fail("transport-open-after-session-closed")
    # close code: peer's code on a clean handshake, 1006 on abnormal ends
    cc = ws.close_code
    trace2 = [t[:2] for t in trace]
    sig = [tuple(t) for t in trace2 if t[0] == "peer" and t[1] not in ("text", "ping", "text@timer") or t[0] == "app" and t[1] != "send"]
    cancelled = ("app", "cancel-receiver") in [tuple(t) for t in trace2]
    unresponsive = ("peer", "unresponsive") in [tuple(t) for t in trace2]
    # (when the application itself closed after a data message, the peer's close frame is the *answer*: it may
    # come within the close timeout - peer's code - or too late - 1006; both are what the property says)
    self_closed_first = state["self_close"] is not None
    if sig and sig[0][0] == "peer" and sig[0][1].startswith("close") and not cancelled and not unresponsive \
            and not (self_closed_first and cc == 1006):
        # the first significant event was the peer's close frame on a live session
        # (a peer that drops the connection in the same loop iteration as its close frame never
        # took our echo: that end may be reported as abnormal)
        j = [t[:2] for t in trace].index(list(sig[0]))
        dropped_at_once = False
        for t in trace[j:]:
            if t[:2] == ["peer", "drop"]:
                dropped_at_once = True
            if "no-tick" not in t:
                break
        if cc != int(sig[0][1][5:]) and not (dropped_at_once and cc == 1006):
            return fail("close-code-differs-from-peer-code", close_code=cc)
    peer_closed_ever = any(t[0] == "peer" and t[1].startswith("close") for t in trace)
    garbage = ("peer", "garbage") in [tuple(t) for t in trace2]
    if not peer_closed_ever and not garbage and not cancelled and cc not in (1006,):
        app_closed = ("app", "close") in [tuple(t) for t in trace2]
        got_closing = any(r[0] == 256 for r in state["received"])
        if app_closed and got_closing and cc == 1000:
            return fail("close-racing-receive-reports-1000-without-peer-close", close_code=cc)
        return fail("abnormal-end-not-reported-as-1006", close_code=cc)
    tag = f"{side}:cc={cc}"
    return True, tag, None


def twin(ctx):
    r = session(ctx, "server", k=1)
    return False, r[1], {"key": "twin"}


def jobs(tier):
    quick = tier == "quick"
    lim = {"time_limit": 110 if quick else 1800}
    k = 3 if quick else 4
    out = []
    firsts = [["peer", "text"], ["peer", "ping"], ["peer", "close1000"], ["peer", "close4001"], ["peer", "garbage"],
              ["peer", "drop"], ["app", "close"], ["app", "send"], ["app", "cancel-receiver"], ["advance", 5]]
    for side in ("server", "client"):
        for f in firsts:
            # (the self-closing application only differs once a data message has arrived)
            modes = ["loop", "close-after-first-message"] if (f in (["peer", "text"], ["advance", 5]) or not quick) else ["loop"]
            out.append(dict(name=f"{side}-{f[0]}-{f[1]}", func="session", params=dict(side=side, k=k, first=[f], modes=modes),
                            limits=lim))
    return out


def twins(tier):
    return [dict(name="twin", func="twin", params={}, limits={"time_limit": 30, "max_paths": 30})]


REQUIRED_OUTCOMES = ("server:cc=1000", "client:cc=1000", "server:cc=1006", "client:cc=")


def bounds(tier):
    return {"script": "k=3 (quick) / 4 steps; first step each of 10 operations (one job each), later steps solver-chosen from the enabled ones",
            "alphabet": "peer: text, text arriving in the loop iteration of the next due timer, ping, close(1000), close(4001), bad opcode, drop, stop answering pings; each event optionally in the same loop iteration as the next one; app: close(), send_str(), cancel the receiving task; advance 1/5/20 s",
            "config": "heartbeat in {None, 4 s}, close timeout in {2 s, 10 s}; the application keeps receiving or closes the session itself after the first data message; both WebSocketResponse and ClientWebSocketResponse"}

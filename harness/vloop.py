"""Deterministic single-threaded event loop with virtual time + in-memory transport.

Used to run the real aiohttp protocol classes and coroutines under solver-chosen
event scripts: tasks are real asyncio.Tasks, timers fire when the script advances
virtual time, nothing depends on wall-clock time or sockets.
"""
from __future__ import annotations

import asyncio
import heapq
import itertools
from asyncio import events


class VLoop(asyncio.AbstractEventLoop):
    def __init__(self):
        self._ready = []
        self._timers = []
        self._now = 1000.0
        self.exc = []  # call_exception_handler contexts
        self._seq = itertools.count()
        self._closed = False
        self.steps = 0
        self._debug = False

    # --- time / misc
    def time(self):
        return self._now

    def get_debug(self):
        return self._debug

    def set_debug(self, v):
        self._debug = v

    def is_closed(self):
        return self._closed

    def is_running(self):
        return True

    def close(self):
        self._closed = True

    # --- futures / tasks
    def create_future(self):
        return asyncio.Future(loop=self)

    def create_task(self, coro, *, name=None, context=None, **kw):
        return asyncio.Task(coro, loop=self, name=name, context=context, **kw)

    # --- callbacks
    def call_soon(self, cb, *args, context=None):
        h = events.Handle(cb, args, self, context)
        self._ready.append(h)
        return h

    call_soon_threadsafe = call_soon

    def call_at(self, when, cb, *args, context=None):
        h = events.TimerHandle(when, cb, args, self, context)
        heapq.heappush(self._timers, (when, next(self._seq), h))
        h._scheduled = True
        return h

    def call_later(self, delay, cb, *args, context=None):
        return self.call_at(self._now + delay, cb, *args, context=context)

    def _timer_handle_cancelled(self, h):
        pass

    def call_exception_handler(self, ctx):
        self.exc.append(ctx)

    def default_exception_handler(self, ctx):
        self.exc.append(ctx)

    def get_exception_handler(self):
        return None

    def set_exception_handler(self, h):
        pass

    def run_in_executor(self, ex, fn, *a):
        f = self.create_future()
        try:
            f.set_result(fn(*a))
        except Exception as e:  # noqa: BLE001
            f.set_exception(e)
        return f

    async def sendfile(self, transport, file, offset=0, count=None, *, fallback=True):
        raise NotImplementedError("no zero-copy path on the in-memory transport")

    def add_signal_handler(self, sig, cb, *a):
        raise NotImplementedError

    def remove_signal_handler(self, sig):
        return False

    async def shutdown_asyncgens(self):
        return None

    async def shutdown_default_executor(self, timeout=None):
        return None

    # --- driving
    def run_ready(self, limit=100000):
        n = 0
        while self._ready:
            h = self._ready.pop(0)
            if not h._cancelled:
                h._run()
                n += 1
                self.steps += 1
                if n > limit:
                    raise RuntimeError("VLoop: callback storm (livelock?)")
        return n

    def advance(self, dt):
        """run everything ready, then move virtual time forward by dt firing timers in order"""
        target = self._now + dt
        self.run_ready()
        while self._timers and self._timers[0][0] <= target:
            when, _, h = heapq.heappop(self._timers)
            if when > self._now:
                self._now = when
            if not h._cancelled:
                h._run()
                self.steps += 1
            self.run_ready()
        self._now = target

    def io_at_next_timer(self, inject, horizon=60.0):
        """One loop iteration in which an I/O event and the next due timer coincide.  As in
        asyncio's _run_once the I/O callback runs first, then the timers that are due; callbacks
        scheduled by either of them run in the following iteration.  Returns False (after running
        inject alone) when no timer is due within the horizon."""
        self.run_ready()
        live = [t for t in self._timers if not t[2]._cancelled]
        if not live or min(live)[0] - self._now > horizon:
            inject()
            self.run_ready()
            return False
        self._now = max(self._now, min(live)[0])
        inject()
        later, self._ready = self._ready, []
        while self._timers and self._timers[0][0] <= self._now:
            _when, _, h = heapq.heappop(self._timers)
            if not h._cancelled:
                h._run()
                self.steps += 1
        self._ready = later + self._ready
        self.run_ready()
        return True

    def pending_timers(self):
        return [(w, h) for (w, _s, h) in self._timers if not h._cancelled]

    def run_until_complete(self, coro_or_fut, max_time=10_000.0):
        t = coro_or_fut if asyncio.isfuture(coro_or_fut) else self.create_task(coro_or_fut)
        self.run_ready()
        guard = 0
        while not t.done():
            live = self.pending_timers()
            if not live:
                raise RuntimeError("VLoop: deadlock (task pending, nothing scheduled)")
            nxt = min(w for w, _ in live)
            if nxt - self._now > max_time:
                raise RuntimeError("VLoop: next timer too far in the future")
            self.advance(max(nxt - self._now, 0))
            guard += 1
            if guard > 100000:
                raise RuntimeError("VLoop: too many timer rounds")
        return t.result()


def install(loop):
    asyncio._set_running_loop(loop)
    try:
        asyncio.set_event_loop(loop)
    except Exception:  # noqa: BLE001
        pass
    return loop


def uninstall():
    asyncio._set_running_loop(None)


class MemTransport(asyncio.Transport):
    def __init__(self, extra=None):
        super().__init__(extra or {})
        self.out = b""
        self.writes = []
        self.closed = False
        self.aborted = False
        self.paused = False
        self.pause_calls = 0
        self.resume_calls = 0
        self.write_after_close = 0

    def write(self, d):
        if self.closed:
            self.write_after_close += 1
            return
        self.out = self.out + d
        self.writes.append(d)

    def writelines(self, ds):
        for d in ds:
            self.write(d)

    def close(self):
        self.closed = True

    def abort(self):
        self.closed = True
        self.aborted = True

    def is_closing(self):
        return self.closed

    def pause_reading(self):
        self.paused = True
        self.pause_calls += 1

    def resume_reading(self):
        self.paused = False
        self.resume_calls += 1

    def is_reading(self):
        return not self.paused

    def get_extra_info(self, name, default=None):
        return self._extra.get(name, default)

    def get_write_buffer_size(self):
        return 0

    def get_write_buffer_limits(self):
        return (0, 65536)

    def set_write_buffer_limits(self, high=None, low=None):
        pass

    def can_write_eof(self):
        return False

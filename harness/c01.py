"""C01 Request framing is unambiguous: HttpRequestParser vs. a strict RFC 9112 reader.

Real code: HttpRequestParser.feed_data/parse_message/parse_headers/_is_chunked_te,
HeadersParser.parse_headers, HttpPayloadParser.feed_data, StreamReader.feed_data.
Oracle: refs/ref_http.py.
"""
from __future__ import annotations

from harness import common as H
from harness import httpcommon as HC
from symx.core import sym_eq

PID = "C01"

EXPLANATION = (
    "Every job executes the real request parser on a byte stream that is a valid message template "
    "with a window of h fully symbolic bytes replacing / inserted at / deleted from one offset (all offsets), "
    "or on a fully symbolic field line / chunked body, and compares accept/reject, message boundaries, method, "
    "target, version, raw header pairs, body bytes, chunk boundaries, upgrade flag and tail with refs/ref_http.py.")
ASSUMPTIONS = [
    "multidict.CIMultiDict replaced by a list-of-pairs model (harness/httpcommon.SymCIMultiDict) while header names may be symbolic; replay uses the real C type",
    "yarl.URL is real for concrete targets; URL.build(path=,query_string=,fragment=) with symbolic text returns a recording stub (framing does not depend on it); symbolic text reaching absolute-form / CONNECT-authority parsing is outside the bound (counted in notes)",
    "protocol flow control is a counting stub; read buffer limit 64 KiB (pausing is C09's subject)",
    "fields/bytes the RFC lets a recipient either reject or tolerate (ref .soft) are accepted either way",
    "repr()/!r of symbolic values inside error messages is an opaque constant",
]
TRUSTED = ["refs/ref_http.py as a reading of RFC 9112/9110", "harness/httpcommon.SymCIMultiDict"]


def _observe_msg(m, payload):
    body, eof, exc, splits = HC.stream_body(payload)
    return (m.method, m.path, (m.version[0], m.version[1]), list(m.raw_headers), body, eof, exc, splits)


def agree(impl, ref):
    """(formula, key_if_concretely_false)"""
    if impl.escaped is not None:
        return False, f"escape:{type(impl.escaped).__name__}"
    if ref.status == "reject":
        if impl.rejected is not None:
            return True, None
        if ref.reason == "asterisk-form-without-OPTIONS" and impl.msgs and isinstance(impl.msgs[0][0].method, str) \
                and impl.msgs[0][0].method == "OPTIONS":
            # the implementation saw OPTIONS only because it folded the case of another token
            # ('OPTIONs *'): that is the case-folding finding, not a second one
            return False, "method-case-folded"
        return False, f"{ref.reason}:impl-accepts"
    if impl.rejected is not None:
        if ref.soft is not None or ref.status == "incomplete":
            return True, None
        return False, f"valid-stream-rejected:{type(impl.rejected).__name__}"
    if len(impl.msgs) != len(ref.msgs):
        return False, f"message-count:{len(impl.msgs)}-vs-{len(ref.msgs)}"
    parts = []
    keys = []
    for (m, payload), rm in zip(impl.msgs, ref.msgs):
        o = _observe_msg(m, payload)
        checks = [
            ("method", sym_eq(o[0], rm.method.decode("ascii", "surrogateescape"))),
            ("target", sym_eq(o[1], rm.target.decode("utf-8", "surrogateescape"))),
            ("version", sym_eq(o[2], rm.version)),
            ("headers", sym_eq([tuple(x) for x in o[3]], [tuple(x) for x in rm.headers])),
            ("body", sym_eq(o[4], rm.body)),
        ]
        if o[6] is not None:
            checks.append(("payload-exception", False))
        # end of body reported exactly when the reference sees the message complete
        checks.append(("eof", bool(o[5]) == bool(rm.complete)))
        if rm.chunked and rm.complete:
            cum = []
            t = 0
            for s in rm.chunk_sizes:
                t = t + s
                cum.append(t)
            checks.append(("chunk-boundaries", sym_eq(o[7] or [], cum)))
        for name, c in checks:
            parts.append(c)
            if c is False:
                k = f"field-mismatch:{name}"
                if name == "method" and isinstance(o[0], str) and o[0] == bytes(rm.method).decode("latin1").upper():
                    k = "method-case-folded"
                if name == "body" and isinstance(o[0], str) and len(o[4]) == 0:
                    k = f"body-ignored:{o[0]}-request"
                keys.append(k)
    want_up = any(rm.upgrade for rm in ref.msgs)
    parts.append(bool(impl.upgraded) == bool(want_up))
    if bool(impl.upgraded) != bool(want_up):
        keys.append("upgrade-flag")
    if want_up:
        parts.append(sym_eq(impl.tail, ref.tail))
    f = H.fall(parts)
    return f, (keys[0] if keys else "field-mismatch")


def _finish(ctx, data, impl, ref, extra):
    f, key = agree(impl, ref)
    if impl.rejected is not None:
        tag = "reject"
    elif impl.escaped is not None:
        tag = "escape"
    else:
        tag = f"accept:{len(impl.msgs)}msg:{ref.status}"
    info = None
    if f is not True:
        info = {"key": key}
        if not ctx.symbolic:
            info.update(stream=bytes(data).decode("latin1"), ref_status=ref.status, ref_reason=ref.reason,
                        ref_soft=ref.soft, impl_rejected=repr(impl.rejected), impl_msgs=len(impl.msgs))
        info.update(extra or {})
    return f, tag, info


# ------------------------------------------------------------------ templates
TEMPLATES = {
    "get": b"GET /p?q=1 HTTP/1.1\r\nHost: a\r\n\r\n",
    "post-cl": b"POST /p HTTP/1.1\r\nHost: a\r\nContent-Length: 3\r\n\r\nabc",
    "post-chunked": b"POST / HTTP/1.1\r\nHost: a\r\nTransfer-Encoding: chunked\r\n\r\n3\r\nabc\r\n0\r\n\r\n",
    "chunked-ext-trailer": b"PUT /x HTTP/1.1\r\nHost: a\r\nTransfer-Encoding: chunked\r\n\r\n2;e=1\r\nhi\r\n0\r\nX-T: y\r\n\r\n",
    "pipeline": b"GET /1 HTTP/1.1\r\nHost: a\r\n\r\nPOST /2 HTTP/1.1\r\nHost: a\r\nContent-Length: 1\r\n\r\nxGET /3 HTTP/1.1\r\nHost: a\r\n\r\n",
    "http10": b"GET / HTTP/1.0\r\nConnection: keep-alive\r\n\r\nGET /b HTTP/1.0\r\n\r\n",
    "head-cl": b"HEAD /h HTTP/1.1\r\nHost: a\r\nContent-Length: 2\r\n\r\nhiGET /n HTTP/1.1\r\nHost: a\r\n\r\n",
    "close": b"GET / HTTP/1.1\r\nHost: a\r\nConnection: close\r\n\r\n",
    "two-te": b"POST / HTTP/1.1\r\nHost: a\r\nTransfer-Encoding: gzip, chunked\r\n\r\n0\r\n\r\n",
    "cl0": b"POST / HTTP/1.1\r\nHost: a\r\nContent-Length: 0\r\nX: y\r\n\r\nGET /z HTTP/1.1\r\nHost: a\r\n\r\n",
    "options": b"OPTIONS * HTTP/1.1\r\nHost: a\r\n\r\n",
    "upgrade": b"GET /ws HTTP/1.1\r\nHost: a\r\nConnection: Upgrade\r\nUpgrade: websocket\r\n\r\n\x81\x00",
    # known smuggling spellings (invalid on purpose): the window explores their neighbourhood
    "x-te-double": b"POST / HTTP/1.1\r\nHost: a\r\nTransfer-Encoding: chunked, chunked\r\n\r\n0\r\n\r\n",
    "x-te-cl": b"POST / HTTP/1.1\r\nHost: a\r\nContent-Length: 5\r\nTransfer-Encoding: chunked\r\n\r\n0\r\n\r\n",
    "x-cl-plus": b"POST / HTTP/1.1\r\nHost: a\r\nContent-Length: +3\r\n\r\nabc",
    "x-cl-dup": b"POST / HTTP/1.1\r\nHost: a\r\nContent-Length: 3\r\nContent-Length: 3\r\n\r\nabc",
    "x-sp-colon": b"POST / HTTP/1.1\r\nHost: a\r\nContent-Length : 3\r\n\r\nabc",
    "x-fold": b"POST / HTTP/1.1\r\nHost: a\r\nX: a\r\n Content-Length: 3\r\n\r\nabc",
    "x-bare-lf": b"GET / HTTP/1.1\r\nHost: a\nX: y\r\n\r\n",
    "x-host-dup": b"GET / HTTP/1.1\r\nHost: a\r\nHost: b\r\n\r\n",
    "x-chunk-size": b"POST / HTTP/1.1\r\nHost: a\r\nTransfer-Encoding: chunked\r\n\r\n0x3\r\nabc\r\n0\r\n\r\n",
    "x-trailer-lf": b"POST / HTTP/1.1\r\nHost: a\r\nTransfer-Encoding: chunked\r\n\r\n0\r\nA: b\nC: d\r\n\r\n",
    "x-te-identity": b"POST / HTTP/1.1\r\nHost: a\r\nTransfer-Encoding: chunked, identity\r\n\r\n0\r\n\r\n",
}


def template(ctx, name="get", lo=0, hi=None, h=1, mode="replace", domain="bytewise"):
    """one symbolic window of h bytes; its offset is a solver variable in lo..hi"""
    from refs import ref_http

    t = TEMPLATES[name]
    hi = len(t) if hi is None else hi
    if mode == "delete":
        pos = lo + ctx.choice("pos", hi - lo)
        data = t[:pos] + t[pos + h:]
    else:
        pos = lo + ctx.choice("pos", hi - lo)
        hole = ctx.bytes("h", h, domain)
        data = t[:pos] + hole + (t[pos + h:] if mode == "replace" else t[pos:])
    impl = HC.run_request_parser([data])
    ref = ref_http.parse_requests(data)
    return _finish(ctx, data, impl, ref, {"template": name, "pos": pos, "mode": mode})


def field_line(ctx, n=4, domain="bytewise", prefix=b"GET / HTTP/1.1\r\nHost: a\r\n"):
    """one fully symbolic field line of n bytes inside an otherwise valid request"""
    from refs import ref_http

    line = ctx.bytes("l", n, domain)
    data = prefix + line + b"\r\n\r\n"
    impl = HC.run_request_parser([data])
    ref = ref_http.parse_requests(data)
    return _finish(ctx, data, impl, ref, {"unit": "field-line"})


def header_value(ctx, header="Content-Length", n=3, domain="bytewise", body=b"abcde"):
    """framing header with a fully symbolic value"""
    from refs import ref_http

    v = ctx.bytes("v", n, domain)
    data = b"POST / HTTP/1.1\r\nHost: a\r\n" + header.encode() + b":" + v + b"\r\n\r\n" + body
    impl = HC.run_request_parser([data])
    ref = ref_http.parse_requests(data)
    return _finish(ctx, data, impl, ref, {"unit": "header-value", "header": header})


def chunked_body(ctx, n=5, domain=None):
    """fully symbolic chunked body after a fixed header"""
    from refs import ref_http

    body = ctx.bytes("b", n, domain)
    data = b"POST / HTTP/1.1\r\nHost: a\r\nTransfer-Encoding: chunked\r\n\r\n" + body
    impl = HC.run_request_parser([data])
    ref = ref_http.parse_requests(data)
    return _finish(ctx, data, impl, ref, {"unit": "chunked-body"})


def request_line(ctx, n=3, where="target", domain="bytewise"):
    """symbolic run inside the request line"""
    from refs import ref_http

    s = ctx.bytes("r", n, domain)
    if where == "target":
        rl = b"GET /" + s + b" HTTP/1.1"
    elif where == "method":
        rl = s + b" / HTTP/1.1"
    else:
        rl = b"GET / " + s
    data = rl + b"\r\nHost: a\r\n\r\n"
    impl = HC.run_request_parser([data])
    ref = ref_http.parse_requests(data)
    return _finish(ctx, data, impl, ref, {"unit": "request-line", "where": where})


def twin(ctx):
    p, tag, info = field_line(ctx, n=2)
    return False, tag, {"key": "twin"}


def setup_models():
    HC.setup_parser_models()


def jobs(tier):
    out = []
    quick = tier == "quick"
    lim = {"time_limit": 100 if quick else 1500}
    span = 12 if quick else 8
    names = ["get", "post-cl", "post-chunked", "chunked-ext-trailer", "pipeline", "head-cl", "two-te", "cl0", "close",
             "x-te-double", "x-te-cl", "x-cl-plus", "x-cl-dup", "x-sp-colon", "x-fold", "x-bare-lf",
             "x-chunk-size", "x-trailer-lf"] if quick else list(TEMPLATES)
    modes = [("replace", 1), ("insert", 1)] if quick else [("replace", 1), ("insert", 1), ("delete", 1),
                                                           ("replace", 2), ("insert", 2), ("delete", 2)]
    for name in names:
        L = len(TEMPLATES[name])
        for mode, h in modes:
            top = L + 1 if mode == "insert" else L - h + 1
            for lo in range(0, top, span):
                out.append(dict(name=f"tmpl-{name}-{mode}{h}-{lo}", func="template",
                                params=dict(name=name, lo=lo, hi=min(lo + span, top), h=h, mode=mode),
                                limits=lim))
    for n in ((1, 2, 3, 4) if quick else (1, 2, 3, 4, 5, 6)):
        out.append(dict(name=f"field-line-{n}", func="field_line", params=dict(n=n), limits=lim))
    out.append(dict(name="field-line-full-3", func="field_line", params=dict(n=3, domain=None), limits=lim))
    for hdr in ("Content-Length", "Transfer-Encoding", "Host"):
        for n in ((1, 2, 3) if quick else (1, 2, 3, 4)):
            out.append(dict(name=f"hv-{hdr}-{n}", func="header_value", params=dict(header=hdr, n=n), limits=lim))
    for n in ((3, 4) if quick else (3, 4, 5, 6, 7)):
        out.append(dict(name=f"chunked-{n}", func="chunked_body", params=dict(n=n), limits=lim))
    for where in ("target", "method", "version"):
        for n in ((1, 2) if quick else (1, 2, 3)):
            out.append(dict(name=f"rl-{where}-{n}", func="request_line", params=dict(n=n, where=where), limits=lim))
    return out


def twins(tier):
    return [dict(name="twin-field-line", func="twin", params={}, limits={"time_limit": 30, "max_paths": 30})]


REQUIRED_OUTCOMES = ("reject", "accept:1msg:ok", "accept:2msg")


def bounds(tier):
    return {"templates": sorted(TEMPLATES), "window_bytes": [1] if tier == "quick" else [1, 2],
            "modes": "replace/insert (quick) + delete (thorough) at every offset",
            "symbolic_byte_domain": "0x00-0x7F u 0xF8-0xFF for windows (bytewise UTF-8 decoding), 0x00-0xFF for field-line-full-3 and chunked bodies",
            "field_line_len": "1..4 (quick) 1..6 (thorough)", "chunked_body_len": "3..4 (quick) 3..7 (thorough)",
            "limits": "max_line_size=max_field_size=8190, max_headers=128 (defaults); symbolic limits are C03/C10"}

"""C16 Cookies are sent only where RFC 6265 scoping allows.

Real code: CookieJar.update_cookies_from_headers/update_cookies/filter_cookies/
_do_expiration/_delete_cookies/clear/clear_domain/save/load, _is_domain_match,
_cookie_helpers.parse_set_cookie_headers (real SimpleCookie/Morsel, real yarl).
Oracle: refs/ref_cookies.py (RFC 6265 store).
"""
from __future__ import annotations

import os
import tempfile

from harness import common as H
from symx import core
from symx.core import sym_eq

PID = "C16"
EXPLANATION = (
    "(1) CookieJar._is_domain_match runs on fully symbolic domain and host strings and is compared with RFC 6265 5.1.3 "
    "(one formula per path). (2) Histories: the solver chooses a script of k steps from {Set-Cookie(name, Domain, "
    "Path, Secure, Max-Age) received from a (scheme, host, path) of a lattice of related hosts; clock advance; clear; "
    "clear_domain; save+load; query filter_cookies(url)}; the real jar and an RFC 6265 reference store run the same "
    "script; at every query the (name, value) pairs the jar returns must be pairs the reference would attach, and every "
    "name the reference attaches must be sent.")
ASSUMPTIONS = [
    "time.time() in aiohttp.cookiejar is a virtual integer clock controlled by the script",
    "Expires= date text is outside the alphabet (Max-Age only); public-suffix rules are out of scope of RFC 6265 5.3 as implemented",
    "Domain attributes with a trailing dot are outside the alphabet (aiohttp keeps such a cookie host-only where RFC 6265 drops it: stricter scoping, not a leak)",
    "cookies from IP-address hosts are not stored (documented CookieJar policy, unsafe=False)",
    "a jar answer is a name->value map: where the reference attaches several cookies of one name the jar must send one of them",
]
TRUSTED = ["refs/ref_cookies.py as a reading of RFC 6265"]

HOSTS = ["example.com", "a.example.com", "b.example.com", "badexample.com", "com", "10.0.0.1"]
PATHS = ["/", "/x", "/x/y", "/xy"]
DOMAINS = [None, "example.com", ".example.com", "a.example.com", "com", "badexample.com", "b.example.com"]
CPATHS = [None, "/", "/x", "/x/"]
MAXAGE = [None, 0, 1, 5]


class _Clock:
    def __init__(self):
        self.now = 1_000_000

    def time(self):
        return float(self.now)

    def __getattr__(self, name):
        import time as _t

        return getattr(_t, name)


def domain_match_kernel(ctx, nd=3, nh=4, alphabet="ab.1-"):
    from aiohttp.cookiejar import CookieJar
    from refs import ref_cookies

    dom = [ord(c) for c in alphabet]
    d = ctx.str("dom", nd, dom)
    h = ctx.str("host", nh, dom)
    got = CookieJar._is_domain_match(d, h)
    # reference on the same symbolic values (plain python over proxies)
    want = _ref_domain_match(h, d)
    f = bool(got) == bool(want)
    info = None
    if not f:
        info = {"key": "domain-match-kernel", "domain": str(d), "host": str(h), "impl": bool(got), "ref": bool(want)}
    return f, ("match" if got else "nomatch"), info


def _ref_domain_match(string, domain_string):
    if len(domain_string) == 0:
        # the empty domain string never appears in the store; aiohttp returns True only for identical strings
        return string == domain_string
    if string == domain_string:
        return True
    if not string.endswith(domain_string):
        return False
    rest = string[: len(string) - len(domain_string)]
    if len(rest) == 0 or rest[-1] != ".":
        return False
    is_ip = (":" in string) or string.replace(".", "").isdigit()
    return not is_ip


_tmp = None


def _tmpfile():
    global _tmp
    if _tmp is None:
        fd, _tmp = tempfile.mkstemp(prefix="verif-c16-", dir="/var/tmp")
        os.close(fd)
        import atexit

        atexit.register(lambda: os.path.exists(_tmp) and os.remove(_tmp))
    return _tmp


SMALL = dict(domains=[None, "example.com", "a.example.com", "com"], cpaths=[None, "/x"], maxage=[None, 1],
             secure=[False], qpaths=["/", "/x/y"])
# histories that go through save/load: fewer domains, but paths with and without a trailing slash
SMALL_SL = dict(domains=[None, "example.com"], cpaths=[None, "/x", "/x/"], maxage=[None, 1],
                secure=[False], qpaths=["/", "/x", "/x/y"])
FULL = dict(domains=DOMAINS, cpaths=CPATHS, maxage=MAXAGE, secure=[False, True], qpaths=PATHS)


def history(ctx, k=3, first=None, hosts=None, names=("a", "b"), steps=None, final_queries=1, alpha="full",
            set_host=None, quick_time=False):
    import aiohttp.cookiejar as cj
    from yarl import URL
    from refs import ref_cookies

    clock = _Clock()
    cj.time = clock
    jar = cj.CookieJar()
    ref = ref_cookies.Store()
    hosts = hosts or HOSTS
    A = FULL if alpha == "full" else (SMALL_SL if alpha == "small-sl" else SMALL)
    trace = []
    vcount = [0]
    kinds = steps or ["set", "advance", "query", "clear_domain", "saveload", "clear"]

    def do_query(i):
        host = ctx.pick(f"qh{i}", hosts)
        secure = ctx.flag(f"qs{i}")
        path = ctx.pick(f"qp{i}", A["qpaths"])
        url = URL(("https" if secure else "http") + "://" + host + path)
        got = {m.key: m.value for m in jar.filter_cookies(url).values()}
        allowed = ref.select(clock.now, host, path, secure)
        trace.append(("query", str(url), sorted(got.items()), sorted(allowed)))
        for n, v in got.items():
            if (n, v) not in allowed:
                return f"cookie-sent-out-of-scope"
        for n, _v in allowed:
            if n not in got:
                return f"cookie-withheld"
        return None

    bad = None
    for i in range(k):
        kind = first[i] if first and i < len(first) else ctx.pick(f"step{i}", kinds)
        if kind == "set":
            host = set_host if (set_host and i == 0) else ctx.pick(f"h{i}", hosts)
            secure_scheme = True  # RFC 6265 does not look at the scheme when storing
            name = ctx.pick(f"n{i}", list(names))
            dom = ctx.pick(f"d{i}", A["domains"])
            cpath = ctx.pick(f"cp{i}", A["cpaths"])
            # the request path only matters for the default-path rule (no Path attribute)
            rpath = ctx.pick(f"rp{i}", ["/", "/x/y", "/x"]) if cpath is None else "/"
            sec = ctx.pick(f"sec{i}", A["secure"])
            ma = ctx.pick(f"ma{i}", A["maxage"])
            vcount[0] += 1
            # a later Set-Cookie may repeat an earlier value (re-sending an identical cookie)
            value = "v1" if vcount[0] == 1 else ctx.pick(f"val{i}", [f"v{vcount[0]}", "v1"])
            hdr = f"{name}={value}"
            if dom is not None:
                hdr += f"; Domain={dom}"
            if cpath is not None:
                hdr += f"; Path={cpath}"
            if sec:
                hdr += "; Secure"
            if ma is not None:
                hdr += f"; Max-Age={ma}"
            url = URL(("https" if secure_scheme else "http") + "://" + host + rpath)
            trace.append(("set", str(url), hdr))
            jar.update_cookies_from_headers([hdr], url)
            ref.set_cookie(clock.now, host, rpath, name, value, dom, cpath, sec, ma)
        elif kind == "advance":
            dt = ctx.pick(f"dt{i}", [1, 10] if alpha != "full" and quick_time else [1, 2, 10])
            clock.now += dt
            trace.append(("advance", dt))
        elif kind == "clear":
            jar.clear()
            ref.clear()
            trace.append(("clear",))
        elif kind == "clear_domain":
            d = ctx.pick(f"cd{i}", ["example.com", "a.example.com", "com"])
            jar.clear_domain(d)
            ref.expire(clock.now)
            ref.clear_domain(d)
            trace.append(("clear_domain", d))
        elif kind == "saveload":
            fd, p = tempfile.mkstemp(prefix="verif-c16-", dir="/var/tmp")
            os.close(fd)
            try:
                jar.save(p)
                jar = cj.CookieJar()
                jar.load(p)
            finally:
                os.remove(p)
            trace.append(("saveload",))
        elif kind == "query":
            bad = do_query(i)
            if bad:
                break
    if not bad:
        for j in range(final_queries):
            bad = do_query(100 + j)
            if bad:
                break
    tag = "+".join(t[0] for t in trace)
    if bad:
        return False, tag, {"key": _classify(bad, trace), "trace": trace}
    return True, tag, None


def _classify(bad, trace):
    """finding key from the shape of the history"""
    kinds = [t[0] for t in trace]
    sets = [t for t in trace if t[0] == "set"]
    q = trace[-1]
    shape = []
    if len(sets) >= 2:
        same_name = len({s[2].split("=")[0] for s in sets}) < len(sets)
        if same_name:
            shape.append("same-name")
        hostonly = [("Domain=" not in s[2]) for s in sets]
        if any(hostonly) and not all(hostonly):
            shape.append("host-only+domain")
        elif all(hostonly):
            shape.append("host-only-twice")
    if "advance" in kinds:
        shape.append("after-expiry")
    if "saveload" in kinds:
        shape.append("after-save-load")
    if kinds.count("query") >= 2:
        shape.append("repeated-query")
    return bad + ":" + ",".join(shape)


def twin(ctx):
    f, tag, info = history(ctx, k=1)
    return False, tag, {"key": "twin"}


def jobs(tier):
    quick = tier == "quick"
    lim = {"time_limit": 110 if quick else 1800}
    out = []
    for nd, nh in (((2, 3), (3, 4)) if quick else ((2, 3), (3, 4), (3, 5), (4, 6))):
        out.append(dict(name=f"domain-match-{nd}-{nh}", func="domain_match_kernel", params=dict(nd=nd, nh=nh), limits=lim))
    core_hosts = ["example.com", "a.example.com", "badexample.com", "10.0.0.1"]
    two = ["example.com", "a.example.com"]
    # one Set-Cookie over the full attribute alphabet, then one query anywhere
    for h in (core_hosts if quick else HOSTS):
        out.append(dict(name=f"set-full-{h}", func="history",
                        params=dict(k=1, first=["set"], hosts=core_hosts if quick else HOSTS, set_host=h), limits=lim))
    # two-step and three-step histories over the reduced alphabet
    shapes = [["set", "query"], ["set", "advance"], ["set", "saveload"], ["set", "clear_domain"], ["set", "set"],
              ["set", "set", "advance"], ["set", "advance", "saveload"], ["set", "saveload", "advance"],
              ["set", "set", "saveload"]]
    if not quick:
        shapes += [["set", "set", "query"], ["set", "set", "clear_domain"], ["set", "advance", "set"],
                   ["set", "query", "saveload"], ["set", "saveload", "set"], ["set", "set", "set"]]
    for sh in shapes:
        heavy = sh.count("set") >= 2
        for h in two:
            out.append(dict(name="hist-" + "-".join(sh) + "-" + h, func="history",
                            params=dict(k=len(sh), first=sh, hosts=two if heavy else core_hosts, set_host=h,
                                        names=("a",) if heavy else ("a", "b"),
                                        alpha="small-sl" if "saveload" in sh else "small", quick_time=quick), limits=lim))
    return out


def twins(tier):
    return [dict(name="twin", func="twin", params={}, limits={"time_limit": 30, "max_paths": 30})]


REQUIRED_OUTCOMES = ("match", "nomatch", "set+query", "set+set+advance+query")


def bounds(tier):
    return {"kernel": "domain 2-3 (quick) / up to 4 chars, host 3-4 / up to 6 chars, fully symbolic over {a b . 1 -}",
            "history": "k=2 steps + final query (quick), k=3 (thorough); first step Set-Cookie",
            "hosts": HOSTS, "paths": PATHS, "domain_attr": DOMAINS, "path_attr": CPATHS, "max_age": MAXAGE,
            "values": "first Set-Cookie v1, later ones a fresh value or v1 again", "names": ["a", "b"], "schemes": ["http", "https"]}

"""C04 Outbound messages: field contents cannot inject structure; framing is truthful.

Real code: http_writer._safe_header/_py_serialize_headers, StreamWriter.write /
write_eof / set_eof / send_headers / write_headers / _send_headers_with_payload /
_write_chunked_payload, StreamResponse._set_status, Payload._binary_headers,
ClientRequestBase method check (regex lemma).
"""
from __future__ import annotations

from harness import common as H
from symx import core
from symx.core import SSeq, sym_eq

PID = "C04"
EXPLANATION = (
    "(1) Unbounded regex lemmas: the forbidden-character classes used by the serialisers equal the RFC 9110 5.5 "
    "control set (so include CR, LF, NUL) and the client's method check equals 'not a tchar', over all code points. "
    "(2) _py_serialize_headers / Payload._binary_headers run on fully symbolic status line, names and values "
    "(every position, all code points of the declared universe): either ValueError before any byte is produced or the "
    "bytes split at CRLF into exactly the start line and one line per header. "
    "(3) StreamWriter is driven by a solver-chosen script of write/write_eof/set_eof/send_headers calls with symbolic "
    "chunk contents, chunked flag and declared length: the bytes handed to the transport are the header block once, "
    "then a body that de-frames (independent chunk reader) to the concatenation of the written data truncated at the "
    "declared length, with exactly one terminator after EOF.")
ASSUMPTIONS = [
    "compression branch of StreamWriter (ZLibCompressor, FFI) not exercised",
    "headers mapping is any object with .items() yielding (name, value) pairs (that is all _py_serialize_headers uses)",
    "UTF-8 maps no non-ASCII code point to a byte below 0x80 (encoded by the SStr.encode model, checked by z3 on every path)",
    "transport never pauses the writer (drain returns at once)",
]
TRUSTED = ["refs/ref_http.dechunk as chunked-body reader"]


class _Hdrs:
    def __init__(self, pairs):
        self.pairs = pairs

    def items(self):
        return list(self.pairs)


def _lines_ok(out, expected_lines):
    """bytes `out` == CRLF.join(expected_lines) + CRLF CRLF and no expected line holds CR or LF"""
    parts = []
    for ln in expected_lines:
        e = ln.b if isinstance(ln, SSeq) else tuple(ln)
        parts.append(core.conj([core.conj([x != 13, x != 10]) for x in e]))
    want = b""
    for i, ln in enumerate(expected_lines):
        want = want + ln + b"\r\n"
    want = want + b"\r\n"
    parts.append(sym_eq(out, want))
    return H.fall(parts)


def serialize(ctx, nhdr=1, n=2, where="all", fn="serialize"):
    """fully symbolic strings in the start line / name / value positions"""
    from aiohttp import http_writer as hw

    def sym(name, k):
        return ctx.str(name, k)

    status = "HTTP/1.1 200 " + (sym("reason", n) if where in ("all", "status") else "OK")
    pairs = []
    for i in range(nhdr):
        name = sym(f"name{i}", n) if where in ("all", "name") else "X-H%d" % i
        val = sym(f"val{i}", n) if where in ("all", "value") else "v"
        pairs.append((name, val))
    try:
        if fn == "serialize":
            out = hw._py_serialize_headers(status, _Hdrs(pairs))
        else:
            from aiohttp.payload import BytesPayload

            p = BytesPayload(b"x")
            p._headers = _Hdrs(pairs)
            out = p._binary_headers
    except ValueError:
        return True, "refused", None
    enc = lambda s: s.encode("utf-8") if not isinstance(s, bytes) else s  # noqa: E731
    lines = ([enc(status)] if fn == "serialize" else []) + [enc(k) + b": " + enc(v) for k, v in pairs]
    if fn == "serialize":
        f = _lines_ok(out, lines)
    else:
        want = b""
        parts = []
        for ln in lines:
            e = ln.b if isinstance(ln, SSeq) else tuple(ln)
            parts.append(core.conj([core.conj([x != 13, x != 10]) for x in e]))
            want = want + ln + b"\r\n"
        want = want + b"\r\n"
        parts.append(sym_eq(out, want))
        f = H.fall(parts)
    info = None if f is True else {"key": f"injection:{fn}:{where}"}
    if info and not ctx.symbolic:
        info["out"] = bytes(out).decode("latin1")
    return f, "written", info


def set_status(ctx, n=3):
    """StreamResponse(reason=...) : reason with CR/LF refused at set time"""
    from aiohttp import web

    reason = ctx.str("reason", n)
    try:
        r = web.StreamResponse(status=200, reason=reason)
    except ValueError:
        return True, "refused", None
    e = r.reason.b if isinstance(r.reason, SSeq) else tuple(map(ord, r.reason))
    f = core.conj([core.conj([x != 13, x != 10]) for x in e])
    return f, "accepted", (None if f is True else {"key": "reason-crlf-accepted"})


class _Tr:
    def __init__(self):
        self.out = b""
        self.calls = 0

    def write(self, d):
        self.out = self.out + d
        self.calls += 1

    def writelines(self, ds):
        for d in ds:
            self.write(d)

    def is_closing(self):
        return False


class _Proto:
    _paused = False

    def __init__(self):
        self.transport = _Tr()

    async def _drain_helper(self):
        return None


def _run(coro):
    try:
        coro.send(None)
    except StopIteration as e:
        return e.value
    raise RuntimeError("writer suspended")


HDR = b"HTTP/1.1 200 OK\r\nX: y\r\n\r\n"


def write_script(ctx, k=3, maxlen=2, with_length=True):
    """solver-chosen script of writer calls after write_headers"""
    from aiohttp.http_writer import StreamWriter
    from refs import ref_http

    proto = _Proto()
    w = StreamWriter(proto, None)
    w.buffer_size = 0
    w.output_size = 0
    chunked = ctx.flag("chunked")
    length = None
    if with_length and not chunked and ctx.flag("has_length"):
        length = ctx.choice("length", k * maxlen + 2)
    if chunked:
        w.enable_chunking()
    w.length = length
    headers_mode = ctx.choice("headers_mode", 2)  # 0: buffered via write_headers; 1: sent at once
    _run(w.write_headers("HTTP/1.1 200 OK", _Hdrs([("X", "y")])))
    if headers_mode == 1:
        w.send_headers()
    written = b""
    ops = []
    eof = False
    for i in range(k):
        op = ctx.pick(f"op{i}", ["write", "write_eof", "set_eof", "send_headers", "write_empty"])
        ops.append(op)
        if op == "write":
            n = 1 + ctx.choice(f"n{i}", maxlen)
            c = ctx.bytes(f"c{i}", n)
            _run(w.write(c))
            written = written + c
        elif op == "write_empty":
            _run(w.write(b""))
        elif op == "write_eof":
            n = ctx.choice(f"n{i}", maxlen + 1)
            c = ctx.bytes(f"c{i}", n) if n else b""
            if length is not None:
                # Response.write_eof hands the rest of a body whose length was declared;
                # StreamWriter.write_eof itself does not truncate: stay within the declaration
                room = length - len(written)
                if len(c) > max(room, 0):
                    c = c[:max(room, 0)]
            _run(w.write_eof(c))
            written = written + c
            eof = True
            break
        elif op == "set_eof":
            w.set_eof()
            eof = True
            break
        else:
            w.send_headers()
    out = proto.transport.out
    sent_headers = len(out) >= len(HDR)
    parts = []
    key = None
    if len(out) == 0:
        # nothing forced the header block out yet: legal only while headers are buffered and no
        # body byte is due (nothing written, or everything beyond the declared length)
        due = written if length is None else written[:length]
        ok = (len(due) == 0 and not eof)
        f = ok
        return f, "nothing-sent", (None if ok else {"key": "data-lost-before-headers"})
    parts.append(sym_eq(out[:len(HDR)], HDR))
    body = out[len(HDR):]
    expect = written if length is None else written[:length]
    if chunked:
        r = ref_http.dechunk(body)
        if r is None:
            parts.append(False)
            key = "malformed-chunk-framing"
        else:
            got, complete, rest, sizes = r
            parts.append(sym_eq(got, expect))
            parts.append(bool(complete) == bool(eof))
            parts.append(len(rest) == 0)
            parts.append(all(int(s) > 0 for s in sizes))
            if key is None and bool(complete) != bool(eof):
                key = "terminator-vs-eof"
    else:
        parts.append(sym_eq(body, expect))
    f = H.fall(parts)
    info = None
    if f is not True:
        info = {"key": key or "body-bytes-differ-from-written", "ops": ops, "chunked": chunked, "length": length}
        if not ctx.symbolic:
            info.update(out=bytes(out).decode("latin1"), written=bytes(written).decode("latin1"))
    return f, ("chunked" if chunked else "plain") + (":eof" if eof else ":open"), info

# ---- payload kinds: declared size vs bytes written --------------------------------------
PAYLOAD_ALPHABET = ["a", "\n", "\u00e9", "\u20ac"]  # 1 byte; LF; 2 bytes in UTF-8 / 1 in Latin-1; 3 bytes in UTF-8
PAYLOAD_KINDS = ("bytes", "string", "bytesio", "file", "textfile", "stringio", "asynciter", "json", "multipart")


class _RecWriter:
    """minimal AbstractStreamWriter: records what the payload writes"""

    def __init__(self):
        self.chunks = []

    async def write(self, chunk):
        self.chunks.append(bytes(chunk))

    async def write_eof(self, chunk=b""):
        self.chunks.append(bytes(chunk))

    async def drain(self):
        pass


def payload_size(ctx, kind="bytes", maxchars=3):
    """solver-chosen content, start offset, encodings and content_length for one payload kind:
    write() emits exactly the content, write_with_length(n) exactly its first n bytes, and the
    declared size (when not None) is the number of bytes write() emits."""
    import io
    import os
    import tempfile

    from aiohttp import payload as P
    from harness.vloop import VLoop, install

    loop = install(VLoop())
    n = ctx.choice("nchars", maxchars + 1)
    text = "".join(ctx.pick(f"ch{i}", PAYLOAD_ALPHABET) for i in range(n))
    cl = ctx.pick("content_length", [None, 0, 1, 2, 3, 4, 5, 7, 100])
    enc = "utf-8"
    start = 0
    tmp = None
    fobj = None
    try:
        if kind == "bytes":
            data = text.encode()
            pl = P.BytesPayload(data)
        elif kind == "string":
            enc = ctx.pick("encoding", ["utf-8", "latin-1", None])
            if enc == "latin-1" and "\u20ac" in text:
                ctx.assume(False)
            pl = P.StringPayload(text, encoding=enc) if enc else P.StringPayload(text)
            data = text.encode(enc or "utf-8")
        elif kind == "bytesio":
            raw = text.encode()
            start = ctx.choice("start", len(raw) + 1)
            fobj = io.BytesIO(raw)
            fobj.seek(start)
            pl = P.BytesIOPayload(fobj)
            data = raw[start:]
        elif kind == "file":
            raw = text.encode()
            start = ctx.choice("start", len(raw) + 1)
            tmp = tempfile.NamedTemporaryFile(prefix="c04pl", delete=False, dir="/var/tmp")
            tmp.write(raw)
            tmp.close()
            fobj = open(tmp.name, "rb")
            fobj.seek(start)
            pl = P.get_payload(fobj) if ctx.flag("via_registry") else P.BufferedReaderPayload(fobj)
            data = raw[start:]
        elif kind == "textfile":
            enc = ctx.pick("encoding", ["utf-8", "latin-1"])
            if enc == "latin-1" and "\u20ac" in text:
                ctx.assume(False)
            tmp = tempfile.NamedTemporaryFile(prefix="c04pl", delete=False, dir="/var/tmp")
            tmp.write(text.encode(enc))
            tmp.close()
            fobj = open(tmp.name, "r", encoding=enc, newline="")
            pl = P.TextIOPayload(fobj, encoding=enc)
            data = text.encode(enc)
        elif kind == "stringio":
            fobj = io.StringIO(text)
            pl = P.get_payload(fobj)
            data = text.encode()
        elif kind == "asynciter":
            raw = text.encode()
            cut = ctx.choice("piece_cut", len(raw) + 1)
            pieces = [raw[:cut], raw[cut:]] if ctx.flag("two_pieces") else [raw]

            async def gen():
                for x in pieces:
                    yield x

            pl = P.AsyncIterablePayload(gen())
            data = raw
        elif kind == "multipart":
            # a multipart body declares its own length: header blocks (here with the chosen, possibly
            # non-ASCII, text in a part header and as the part content) count in bytes
            from aiohttp import multipart as MP

            pl = MP.MultipartWriter("mixed", boundary="b")
            pl.append_payload(P.BytesPayload(text.encode(), headers={"X-Name": "n-" + text.replace("\n", " ")}))
            # the second part may ask for a transfer encoding: the encoded form is what goes on the wire
            # and what the declared size has to count
            te = ctx.pick("part_transfer_encoding", [None, "base64", "quoted-printable", "binary"])
            pl.append_payload(P.StringPayload(text, headers={"Content-Transfer-Encoding": te} if te else None))
            data = None
        else:  # json
            pl = P.JsonPayload({"k": text})
            import json as _json

            # (how the JSON text is spelled is the implementation's business: take its own rendering and
            # only require that it says the same thing)
            data = bytes(pl._value)
            if _json.loads(data) != {"k": text}:
                return False, "inv:payload-json", {"key": "json-payload-does-not-encode-the-object", "text": text}
        size = pl.size
        w = _RecWriter()
        use_plain_write = cl is None and ctx.flag("plain_write")

        async def go():
            if use_plain_write:
                await pl.write(w)
            else:
                await pl.write_with_length(w, cl)

        loop.run_until_complete(go())
        out = b"".join(w.chunks)
        if data is None:
            # (no independent rendering of the multipart wire here - that is C19; the claim is the size)
            if size is not None and cl is None and size != len(out):
                return False, "inv:payload-size", {"key": "payload-declared-size-differs-from-bytes-written:multipart",
                                                   "text": text, "declared_size": size, "written": len(out),
                                                   "part_transfer_encoding": te}
            return True, "payload:full", None
        want = data if cl is None else data[:cl]
        key = None
        if out != want:
            key = ("payload-writes-more-than-content-length" if cl is not None and len(out) > cl
                   else "payload-bytes-differ-from-content")
        elif size is not None and size != len(data):
            key = "payload-declared-size-differs-from-bytes-written"
        tag = "payload:" + ("clamped" if cl is not None and cl < len(data) else "full")
        if key:
            return False, "inv:" + key, {"key": key + ":" + kind, "kind": kind, "text": text, "encoding": enc,
                                         "start": start, "content_length": cl, "declared_size": size,
                                         "written": out.decode("latin1"), "expected": want.decode("latin1")}
        return True, tag, None
    finally:
        try:
            if fobj is not None:
                fobj.close()
        except Exception:  # noqa: BLE001
            pass
        if tmp is not None:
            try:
                os.unlink(tmp.name)
            except OSError:
                pass


def twin(ctx):
    f, tag, info = write_script(ctx, k=1, maxlen=1)
    return False, tag, {"key": "twin"}


def lemmas(tier):
    import sys

    sys.path.insert(0, __import__("os").environ.get("VERIF_REPO_ROOT", "/repo"))
    import z3
    from lemmas import regex_lemmas as L
    from aiohttp import client_reqrep as cr
    from aiohttp import http_writer as hw

    out = []
    try:
        out.append(L.search_equiv_class("writer-forbidden-chars == CTL except HTAB (RFC 9110 5.5)",
                                        hw._FORBIDDEN_HEADER_CHARS_RE, L.ref_ctl_except_htab()))
        impl = L.to_z3(hw._FORBIDDEN_HEADER_CHARS_RE)
        out.append(L.decide("writer-forbidden-chars contains CR LF NUL",
                            lambda x: z3.And(z3.Or(x == z3.StringVal("\r"), x == z3.StringVal("\n"),
                                                   x == z3.StringVal("\x00")), z3.Not(z3.InRe(x, impl)))))
        out.append(L.search_equiv_class("client method check == not tchar", cr._CONTAINS_CONTROL_CHAR_RE,
                                        z3.Intersect(L.ALLCHAR, z3.Complement(L.ref_tchar()))))
    except Exception as e:  # noqa: BLE001
        out.append({"name": "c04-lemmas", "status": "error", "detail": repr(e)})
    return out


def jobs(tier):
    quick = tier == "quick"
    lim = {"time_limit": 100 if quick else 1500}
    out = []
    for where in ("status", "name", "value"):
        for n in ((1, 2, 3) if quick else (1, 2, 3, 4, 5)):
            out.append(dict(name=f"ser-{where}-{n}", func="serialize", params=dict(nhdr=1, n=n, where=where), limits=lim))
    out.append(dict(name="ser-all-2x2", func="serialize", params=dict(nhdr=2, n=1 if quick else 2, where="all"), limits=lim))
    for where in ("name", "value"):
        out.append(dict(name=f"payload-hdr-{where}", func="serialize",
                        params=dict(nhdr=1, n=2 if quick else 3, where=where, fn="payload"), limits=lim))
    for n in ((1, 2, 3) if quick else (1, 2, 3, 4)):
        out.append(dict(name=f"reason-{n}", func="set_status", params=dict(n=n), limits=lim))
    for k in ((2, 3) if quick else (2, 3, 4)):
        out.append(dict(name=f"script-{k}", func="write_script", params=dict(k=k, maxlen=2), limits=lim))
    out.extend(_payload_jobs(tier, lim))
    return out


def _payload_jobs(tier, lim):
    return [dict(name=f"payload-size-{k}", func="payload_size", params=dict(kind=k, maxchars=2 if tier == "quick" else 3),
                 limits=lim) for k in PAYLOAD_KINDS]


def twins(tier):
    return [dict(name="twin", func="twin", params={}, limits={"time_limit": 30, "max_paths": 30})]


REQUIRED_OUTCOMES = ("refused", "written", "chunked:eof", "plain:eof", "payload:clamped", "payload:full")


def bounds(tier):
    return {"strings": "status reason / header name / header value: 1..3 (quick), 1..5 (thorough) fully symbolic characters over ASCII + Latin-1 + surrogate escapes + 8 non-BMP/BMP representatives",
            "write_scripts": "2..3 calls (quick) / 2..4 after write_headers, ops {write 1-2 symbolic bytes, write(b''), write_eof 0-2 bytes, set_eof, send_headers}, chunked flag, optional declared length 0..k*2+1, headers buffered or sent first",
            "payloads": "BytesPayload, StringPayload, BytesIOPayload, BufferedReaderPayload (real file), TextIOPayload (real text file), StringIO, AsyncIterablePayload, JsonPayload with 0..2 (quick) / 0..3 characters from {a, LF, e-acute, euro sign}, start offset, encoding utf-8/latin-1, content_length in {None,0,1,2,3,4,5,7,100}: write() emits the content, write_with_length(n) its first n bytes, size == bytes written", "lemmas": "unbounded (all strings / all code points)"}

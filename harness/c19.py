"""C19 Multipart codec round trip, truthful size, reader termination
(identity / binary parts symbolically; base64 with concrete content and
solver-chosen write slicing; gzip/deflate part encodings are FFI: not claimed).

Real code: MultipartWriter.append/append_payload/write/size, MultipartPayloadWriter,
MultipartReader.next/_read_until_first_boundary/_read_boundary/_read_headers,
BodyPartReader.read/read_chunk/_read_chunk_from_stream/_read_chunk_from_length/
readline/release, StreamReader (incl. unread_data), HeadersParser.
"""
from __future__ import annotations

import asyncio
import warnings

from harness import common as H
from harness.vloop import VLoop, install
from symx import core
from symx.core import sym_eq

PID = "C19"
EXPLANATION = (
    "Round trip: 1-2 parts whose bodies are fully symbolic bytes over {CR, LF, '-', the boundary character, 'x'} "
    "(every near-boundary pattern of that length) are written by the real MultipartWriter (form-data and mixed), the "
    "wire bytes are delivered to a real StreamReader in solver-chosen pieces while a real MultipartReader task reads "
    "them with a solver-chosen API (read, read_chunk of a small legal size, readline loop, release); z3 decides per "
    "path that the parts read equal the parts written and that size (when not None) equals the bytes written. "
    "Termination: on fully symbolic multipart bodies the driving loop finishes within a step budget with parts or an "
    "error. base64: concrete content, solver-chosen slicing of the writes.")
ASSUMPTIONS = [
    "part bodies do not contain CRLF + '--' + boundary and do not begin with '--' + boundary (multipart requires the boundary not to occur in the content); asserted as a solver assumption before the code runs; for the readline API the delimiter must not be the prefix of any LF-terminated line (RFC 2046 5.1.1: not 'the prefix of any line')",
    "gzip/deflate part encodings (zlib) and base64/quoted-printable (binascii) are FFI: they run natively on concrete contents chosen by the solver (8 contents incl. CRLF, '=', trailing blanks, 8-bit bytes, a delimiter look-alike) in the codec-parts job, with nesting on/off and one cut; base64 additionally with solver-chosen write slicing",
    "header block of the enclosing message is a plain dict {'Content-Type': 'multipart/...; boundary=b'}",
    "multidict.CIMultiDict replaced by SymCIMultiDict inside HeadersParser while part header names may be symbolic (termination runs)",
]
TRUSTED = []

DOM = (13, 10, 45, 98, 120)


class _W:
    """AbstractStreamWriter stand-in collecting what the multipart writer emits"""

    def __init__(self):
        self.out = b""
        self.calls = []

    async def write(self, chunk):
        self.out = self.out + chunk
        self.calls.append(len(chunk))

    async def drain(self):
        return None

    async def write_eof(self, chunk=b""):
        if chunk:
            await self.write(chunk)


def _run(coro):
    try:
        coro.send(None)
    except StopIteration as e:
        return e.value
    raise RuntimeError("suspended")


class _Proto:
    def __init__(self):
        self._reading_paused = False
        self.connected = True

    def pause_reading(self):
        self._reading_paused = True

    def resume_reading(self, resume_parser=True):
        self._reading_paused = False


def _no_delim(ctx, body, boundary, lines=False):
    """assume the multipart precondition on a part body.  lines: for the line-oriented API the
    delimiter must not be the prefix of any line, a line being what readline() returns (LF-terminated)"""
    delim = (b"\n--" if lines else b"\r\n--") + boundary
    n, m = len(body), len(delim)
    conds = []
    bb = body.b if hasattr(body, "b") else tuple(body)
    for i in range(0, n - m + 1):
        conds.append(core.neg(core.conj([bb[i + j] == delim[j] for j in range(m)])))
    start = b"--" + boundary
    if n >= len(start):
        conds.append(core.neg(core.conj([bb[j] == start[j] for j in range(len(start))])))
    c = core.conj(conds)
    if ctx.symbolic:
        ctx.assume(c)
    elif not c:
        raise core.Abort()


async def _read_parts(reader, api, chunk_size):
    out = []
    while True:
        part = await reader.next()
        if part is None:
            break
        hdrs = dict(part.headers)
        if api == "read":
            data = await part.read()
        elif api == "chunks":
            data = b""
            while not part.at_eof():
                data = data + await part.read_chunk(chunk_size)
        elif api == "lines":
            data = b""
            for _ in range(64):
                if part.at_eof():
                    break
                data = data + await part.readline()
        elif api == "release":
            await part.release()
            data = None
        else:
            data = await part.read()
        out.append((part.name, data))
    return out


def roundtrip(ctx, nparts=1, maxlen=3, subtype="form-data", boundary="b", ncuts=1, apis=("read", "chunks", "release")):
    from aiohttp import multipart, payload
    from aiohttp.streams import StreamReader

    boundary = boundary.encode()
    warnings.simplefilter("ignore")
    loop = install(VLoop())
    mw = multipart.MultipartWriter(subtype, boundary=boundary.decode())
    bodies = []
    for i in range(nparts):
        n = ctx.choice(f"len{i}", maxlen + 1)
        body = ctx.bytes(f"b{i}", n, DOM) if n else b""
        if n:
            _no_delim(ctx, body, boundary, lines=list(apis) == ["lines"])
        bodies.append(body)
        p = payload.BytesPayload(body)
        if subtype == "form-data":
            p.set_content_disposition("form-data", name=f"f{i}")
        mw.append_payload(p)
    w = _W()
    _run(mw.write(w))
    wire = w.out
    declared = mw.size
    size_ok = True if declared is None else (declared == len(wire))
    # ---- reading side, wire delivered in pieces while the reader task runs
    sr = StreamReader(_Proto(), 2 ** 16, loop=loop)
    reader = multipart.MultipartReader({"Content-Type": f"multipart/{subtype}; boundary={boundary.decode()}"}, sr)
    api = ctx.pick("api", list(apis))
    chunk_size = len(boundary) + 4 + ctx.choice("chunk", 3)
    task = asyncio.Task(_read_parts(reader, api, chunk_size), loop=loop)
    cuts = H.cut_points(ctx, "cut", len(wire), ncuts)
    for piece in H.pieces(wire, cuts):
        if len(piece):
            sr.feed_data(piece)
        loop.run_ready()
    sr.feed_eof()
    loop.run_ready()
    tag = f"{subtype}:{api}:{nparts}"
    if not task.done():
        task.cancel()
        loop.run_ready()
        return False, tag + ":stuck", {"key": "reader-stuck-after-eof", "api": api, "cuts": cuts}
    if task.exception() is not None:
        e = task.exception()
        return False, tag + ":raise", {"key": f"roundtrip-raises:{type(e).__name__}", "api": api, "cuts": cuts,
                                       "detail": str(e)[:200]}
    got = task.result()
    parts = [size_ok, len(got) == nparts]
    key = "size-differs-from-bytes-written" if size_ok is False else None
    if len(got) == nparts:
        for (name, data), body in zip(got, bodies):
            if data is not None:
                parts.append(sym_eq(data, body))
    elif key is None:
        key = f"part-count:{len(got)}-vs-{nparts}"
    f = H.fall(parts)
    info = None
    if f is not True:
        info = {"key": key or "part-content-differs", "api": api, "cuts": cuts, "chunk_size": chunk_size}
        if not ctx.symbolic:
            info.update(wire=bytes(wire).decode("latin1"), got=repr(got)[:300], bodies=repr(bodies)[:200])
    return f, tag, info

FORM_NAMES = ["f", "na\u00efve", "a b", 'q"uote', "semi;colon", "\u20ac", "back\\slash", "p%41ct"]


def formdata(ctx):
    """FormData -> MultipartWriter -> wire -> MultipartReader: field name and filename come back
    verbatim or in a percent-encoded form that decodes to the original; the declared size equals
    the bytes written (header blocks with non-ASCII text included)."""
    from urllib.parse import unquote

    from aiohttp import FormData, multipart
    from aiohttp.streams import StreamReader

    warnings.simplefilter("ignore")
    loop = install(VLoop())
    name = ctx.pick("name", FORM_NAMES)
    filename = ctx.pick("filename", [None] + FORM_NAMES)
    quote = ctx.flag("quote_fields")
    charset = ctx.pick("charset", [None, "utf-8"])
    content = ctx.pick("content", [b"", b"data", "t\u00e9xt"])
    fd = FormData(quote_fields=quote, charset=charset, default_to_multipart=True)
    try:
        fd.add_field(name, content, filename=filename)
        fd.add_field("second", "x")
        mw = fd()
    except (ValueError, TypeError) as e:
        return True, "form:refused", None
    w = _W()
    _run(mw.write(w))
    wire = bytes(w.out)
    declared = mw.size
    info = {"name": name, "filename": filename, "quote_fields": quote, "charset": charset, "content": repr(content)}
    if declared is not None and declared != len(wire):
        info.update(key="size-differs-from-bytes-written:formdata", declared=declared, written=len(wire))
        return False, "inv:size", info
    ctype = mw.headers["Content-Type"]
    sr = StreamReader(_Proto(), 2 ** 16, loop=loop)
    reader = multipart.MultipartReader({"Content-Type": ctype}, sr)

    async def read_all():
        out = []
        while True:
            part = await reader.next()
            if part is None:
                break
            out.append((part.name, part.filename, bytes(await part.read())))
        return out

    task = asyncio.Task(read_all(), loop=loop)
    cut = ctx.pick("cut", [0, len(wire) // 3, len(wire) // 2, len(wire) - 3])
    for piece in (wire[:cut], wire[cut:]):
        if piece:
            sr.feed_data(piece)
        loop.run_ready()
    sr.feed_eof()
    loop.run_ready()
    if not task.done():
        task.cancel()
        loop.run_ready()
        info.update(key="reader-stuck-after-eof:formdata")
        return False, "inv:stuck", info
    if task.exception() is not None:
        info.update(key=f"roundtrip-raises:{type(task.exception()).__name__}:formdata", detail=str(task.exception())[:200],
                    wire=wire.decode("latin1")[:400])
        return False, "inv:raise", info
    got = task.result()
    want_body = content if isinstance(content, bytes) else content.encode(charset or "utf-8")

    def same(a, b):
        return a == b or (a is not None and b is not None and unquote(a) == b)

    if len(got) != 2 or not same(got[0][0], name) or not same(got[0][1], filename) or got[0][2] != want_body \
            or got[1][0] != "second" or got[1][2] != b"x":
        info.update(key="formdata-part-differs", got=repr(got)[:300], wire=wire.decode("latin1")[:400])
        return False, "inv:differs", info
    return True, "form:ok", None

CODEC_CONTENTS = [b"", b"a", b"line one\r\nline two = 2\r\n", b"trailing space \r\n\ttab", bytes(range(0, 256, 5)),
                  "t\u00e9xt \u20ac".encode(), b"=" * 5 + b"x" * 80 + b"\r\n.\r\n", b"--b\r\nnot a boundary"]


def codec_parts(ctx):
    """Parts written with a Content-Transfer-Encoding (base64, quoted-printable, binary) and/or a
    Content-Encoding (gzip, deflate) - binascii and zlib run natively on concrete content - come back
    with identical bytes through read(decode=True), under a solver-chosen cut of the wire and a
    solver-chosen second part; nested multipart bodies come back as the same tree."""
    from aiohttp import multipart, payload
    from aiohttp.streams import StreamReader

    warnings.simplefilter("ignore")
    loop = install(VLoop())
    te = ctx.pick("transfer_encoding", [None, "base64", "quoted-printable", "binary"])
    ce = ctx.pick("content_encoding", [None, "gzip", "deflate"])
    content = ctx.pick("content", CODEC_CONTENTS)
    nested = ctx.flag("nested")
    if b"--b" in content and te != "base64" and ce is None:
        # multipart requires that the delimiter does not occur in the (encoded) content; only an
        # encoding that rewrites the bytes makes this content legal
        return True, "codec:precondition", None
    mw = multipart.MultipartWriter("mixed", boundary="b")
    hdrs = {}
    if te:
        hdrs["Content-Transfer-Encoding"] = te
    if ce:
        hdrs["Content-Encoding"] = ce
    info = {"transfer_encoding": te, "content_encoding": ce, "content": content.decode("latin1"), "nested": nested}
    try:
        if nested:
            inner = multipart.MultipartWriter("mixed", boundary="inner")
            inner.append_payload(payload.BytesPayload(content, headers=dict(hdrs)))
            inner.append_payload(payload.BytesPayload(b"second inner"))
            mw.append(inner)
        else:
            mw.append_payload(payload.BytesPayload(content, headers=dict(hdrs)))
        mw.append_payload(payload.BytesPayload(b"tail part"))
    except Exception as e:  # noqa: BLE001
        return True, "codec:refused:" + type(e).__name__, None
    w = _W()
    _run(mw.write(w))
    wire = bytes(w.out)
    declared = mw.size
    if declared is not None and declared != len(wire):
        info.update(key="size-differs-from-bytes-written:codec-parts", declared=declared, written=len(wire))
        return False, "inv:codec", info
    sr = StreamReader(_Proto(), 2 ** 16, loop=loop)
    reader = multipart.MultipartReader({"Content-Type": "multipart/mixed; boundary=b"}, sr)

    # how much of a nested body the consumer looks at before it asks the parent for the next part
    nested_mode = ctx.pick("nested_consumption", ["all", "skip", "first-only"]) if nested else "all"

    async def read_tree(rd, top=True):
        out = []
        while True:
            part = await rd.next()
            if part is None:
                break
            if isinstance(part, multipart.MultipartReader):
                if nested_mode == "skip":
                    out.append("skipped")
                elif nested_mode == "first-only":
                    first = await part.next()
                    out.append([bytes(await first.read(decode=True))])
                else:
                    out.append(await read_tree(part, False))
            else:
                out.append(bytes(await part.read(decode=True)))
        return out

    task = asyncio.Task(read_tree(reader), loop=loop)
    marks = sorted({0, 1, len(wire) // 3, len(wire) // 2, len(wire) - 12, len(wire) - 5, len(wire) - 1})
    cut = ctx.pick("cut", [m for m in marks if 0 <= m <= len(wire)])
    for piece in (wire[:cut], wire[cut:]):
        if piece:
            sr.feed_data(piece)
        loop.run_ready()
    sr.feed_eof()
    loop.run_ready()
    if not task.done():
        task.cancel()
        loop.run_ready()
        info.update(key="reader-stuck-after-eof:codec-parts")
        return False, "inv:codec", info
    if task.exception() is not None:
        info.update(key=f"roundtrip-raises:{type(task.exception()).__name__}:codec-parts", detail=str(task.exception())[:200],
                    wire=wire.decode("latin1")[:300])
        return False, "inv:codec", info
    got = task.result()
    want = ([[content, b"second inner"]] if nested else [content]) + [b"tail part"]
    if nested and nested_mode == "skip":
        want[0] = "skipped"
    elif nested and nested_mode == "first-only":
        want[0] = [content]
    info["nested_consumption"] = nested_mode
    if got != want:
        info.update(key="part-content-differs:codec-parts", got=repr(got)[:300], wire=wire.decode("latin1")[:300])
        return False, "inv:codec", info
    return True, "codec:" + ("nested" if nested else "flat"), None


def termination(ctx, n=5, prefix="--b\r\n", budget=6000):
    """arbitrary bytes after an optional valid opening: the driving loop ends"""
    from aiohttp import multipart
    from aiohttp.streams import StreamReader

    warnings.simplefilter("ignore")
    loop = install(VLoop())
    prefix = prefix.encode()
    body = prefix + ctx.bytes("d", n, (13, 10, 45, 98, 58, 120)) if prefix else ctx.bytes("d", n, (13, 10, 45, 98, 58, 120))
    sr = StreamReader(_Proto(), 2 ** 16, loop=loop)
    sr.feed_data(body)
    sr.feed_eof()
    reader = multipart.MultipartReader({"Content-Type": "multipart/form-data; boundary=b"}, sr)
    api = ctx.pick("api", ["read", "chunks", "release"])
    steps0 = loop.steps
    task = asyncio.Task(_read_parts(reader, api, 5), loop=loop)
    try:
        loop.run_ready(limit=budget)
    except RuntimeError:
        task.cancel()
        return False, "livelock", {"key": "reader-does-not-terminate", "api": api}
    if not task.done():
        task.cancel()
        loop.run_ready()
        return False, "stuck", {"key": "reader-blocked-after-eof", "api": api}
    return True, ("raise" if task.exception() is not None else "parts"), None


def base64_slicing(ctx, content="abcdefg", maxcuts=3):
    """concrete content, solver-chosen slicing of the payload writes, base64 part encoding"""
    from aiohttp import multipart, payload
    from aiohttp.streams import StreamReader

    warnings.simplefilter("ignore")
    loop = install(VLoop())
    content = content.encode()
    n = len(content)
    cuts = H.cut_points(ctx, "w", n, maxcuts)
    pieces = [p for p in H.pieces(content, cuts)]

    async def gen():
        for p in pieces:
            yield p

    mw = multipart.MultipartWriter("mixed", boundary="b")
    p = payload.AsyncIterablePayload(gen())
    p.headers["Content-Transfer-Encoding"] = "base64"
    mw.append_payload(p)
    w = _W()
    _run(mw.write(w))
    sr = StreamReader(_Proto(), 2 ** 16, loop=loop)
    sr.feed_data(w.out)
    sr.feed_eof()
    reader = multipart.MultipartReader({"Content-Type": "multipart/mixed; boundary=b"}, sr)

    async def rd():
        part = await reader.next()
        return await part.read(decode=True)

    t = asyncio.Task(rd(), loop=loop)
    loop.run_ready()
    if not t.done() or t.exception() is not None:
        return False, "b64:raise", {"key": "base64-roundtrip-raises", "cuts": cuts}
    ok = bytes(t.result()) == content
    return ok, "b64", (None if ok else {"key": "base64-part-content-differs", "cuts": cuts, "got": repr(bytes(t.result()))})


def twin(ctx):
    f, tag, info = roundtrip(ctx, nparts=1, maxlen=1)
    return False, tag, {"key": "twin"}


def jobs(tier):
    quick = tier == "quick"
    lim = {"time_limit": 110 if quick else 1800}
    out = []
    for sub in ("form-data", "mixed"):
        for api in ("read", "chunks", "lines", "release"):
            out.append(dict(name=f"rt1-{sub}-{api}", func="roundtrip",
                            params=dict(nparts=1, maxlen=4 if quick else 6, subtype=sub, ncuts=1, apis=[api]), limits=lim))
        out.append(dict(name=f"rt2-{sub}", func="roundtrip",
                        params=dict(nparts=2, maxlen=2 if quick else 3, subtype=sub, ncuts=1 if quick else 2), limits=lim))
    for n in ((3, 4, 5) if quick else (3, 4, 5, 6, 7)):
        out.append(dict(name=f"term-{n}", func="termination", params=dict(n=n), limits=lim))
    out.append(dict(name="formdata", func="formdata", params={}, limits=lim))
    out.append(dict(name="codec-parts", func="codec_parts", params={}, limits=lim))
    out.append(dict(name="term-raw-5", func="termination", params=dict(n=5 if quick else 7, prefix=""), limits=lim))
    for c in ("abcde", "abcdefg") + (() if quick else ("abcdefghij",)):
        out.append(dict(name=f"b64-{len(c)}", func="base64_slicing", params=dict(content=c, maxcuts=3 if quick else 4),
                        limits=lim))
    return out


def twins(tier):
    return [dict(name="twin", func="twin", params={}, limits={"time_limit": 30, "max_paths": 30})]


REQUIRED_OUTCOMES = ("form-data:read:1", "mixed:chunks:1", "parts", "raise", "b64")


def bounds(tier):
    return {"roundtrip": "1 part of 0..4 (quick) / 0..6 symbolic bytes, 2 parts of 0..2 / 0..3, over {CR LF - b x}, boundary 'b', subtypes form-data (boundary scan) and mixed (Content-Length), 1-2 symbolic cuts of the wire, APIs read / read_chunk(5..7) / readline loop / release",
            "termination": "'--b CRLF' + 3..5 (quick) / 3..7 symbolic bytes over {CR LF - b : x}; raw 5 / 7 symbolic bytes; loop budget 6000 callbacks",
            "codec_parts": "Content-Transfer-Encoding in {none, base64, quoted-printable, binary} x Content-Encoding in {none, gzip, deflate} x 8 concrete contents x nested / flat x 7 cut positions: read(decode=True) returns the content", "formdata": "FormData(default_to_multipart) with field name and filename from 8 strings (ASCII, Latin-1, non-BMP-free Unicode, space, quote, semicolon, backslash, percent), quote_fields on/off, charset None/utf-8, bytes or text content, one cut: size == bytes written; names come back verbatim or percent-decoded", "base64": "concrete contents of 5, 7 (and 10) bytes, every slicing into up to 4 (5) writes"}


def setup_models():
    from harness import httpcommon as HC

    HC.setup_parser_models()

"""C15 Static files: Range / conditional arithmetic of FileResponse (claimed part).

Real code: BaseRequest.http_range, FileResponse._prepare_open_file (status, offset,
count, Content-Range, Content-Length), FileResponse._make_response decision table.
Confinement under symlinks / normalisation is NOT claimed: decided by os.path,
pathlib.resolve and the kernel (FFI).
"""
from __future__ import annotations

from harness import common as H
from symx import core
from symx.core import SInt, SSeq, sym_eq

PID = "C15"
EXPLANATION = (
    "The real FileResponse._prepare_open_file coroutine and BaseRequest.http_range run with a symbolic file size "
    "(one integer, 0..10^6) and a Range header 'bytes=A-B' whose A and B are symbolic digit strings of 0-3 digits "
    "(plus fully symbolic short headers for the malformed case); the transport layer is cut at super().prepare / "
    "_sendfile, which record status, offset, count and headers. Per path z3 decides agreement with RFC 9110 14.1.2 / "
    "15.3.7 / 15.5.17: 206 implies 0 <= offset, count >= 1, offset+count <= size, Content-Range = "
    "offset-(offset+count-1)/size and Content-Length = count; unsatisfiable ranges give 416 with Content-Range */size. "
    "The If-Match / If-None-Match / If-(Un)Modified-Since decision table of _make_response is run with symbolic mtimes.")
ASSUMPTIONS = [
    "os.stat result is a stub object with symbolic st_size (and symbolic st_mtime for the conditional table); the file object is never read (body bytes are written by sendfile / the kernel: FFI)",
    "StreamResponse.prepare and FileResponse._sendfile are recording stubs",
    "a syntactically invalid or malformed Range header may be answered 416 or ignored (200, whole file): RFC 9110 14.2 allows both",
    "not claimed: path confinement, symlink policy, directory listing (os.path/pathlib/kernel behind FFI)",
]
TRUSTED = []


class _St:
    def __init__(self, size, mtime=1_600_000_000.0):
        self.st_size = size
        self.st_mtime = mtime
        self.st_mtime_ns = int(mtime) * 10 ** 9 if isinstance(mtime, (int, float)) else 0
        self.st_mode = 0o100644


def _run(coro):
    try:
        coro.send(None)
    except StopIteration as e:
        return e.value
    raise RuntimeError("suspended")


def _digits(ctx, name, maxlen):
    n = ctx.choice(name + "_len", maxlen + 1)
    return ctx.str(name, n, range(48, 58)) if n else ""


def _val(s):
    """integer value of a digit string (symbolic or not); None if empty"""
    if len(s) == 0:
        return None
    v = 0
    for x in (s.b if isinstance(s, SSeq) else [ord(c) for c in s]):
        v = v * 10 + (x - 48)
    return v if isinstance(v, int) else SInt(v)


def _serve(range_header, size):
    from aiohttp import web, web_fileresponse, web_response
    from aiohttp.test_utils import make_mocked_request
    import pathlib

    rec = {}

    async def fake_prepare(self, request):
        rec["via"] = "prepare"
        return None

    async def fake_sendfile(self, request, fobj, offset, count):
        rec["via"] = "sendfile"
        rec["offset"] = offset
        rec["count"] = count
        return None

    web_response.StreamResponse.prepare = fake_prepare
    web_fileresponse.FileResponse._sendfile = fake_sendfile
    hdrs = {} if range_header is None else {"Range": range_header}
    req = make_mocked_request("GET", "/f.bin", headers=hdrs)
    resp = web.FileResponse(pathlib.Path("/nonexistent/f.bin"))
    _run(resp._prepare_open_file(req, None, _St(size), None))
    rec["status"] = resp.status
    rec["content_range"] = resp.headers.get("Content-Range")
    rec["content_length"] = resp.headers.get("Content-Length")
    return rec


def _num(x):
    """render an int / SInt the way the response does (decimal)"""
    from symx import hook

    if isinstance(x, SInt):
        return hook.sint_to_str(x)
    return str(x)


def range_arith(ctx, maxdigits=2, size_hi=1000):
    size = ctx.int("size", 0, size_hi)
    a = _digits(ctx, "a", maxdigits)
    b = _digits(ctx, "b", maxdigits)
    header = "bytes=" + a + "-" + b
    rec = _serve(header, size)
    A, B = _val(a), _val(b)
    status = rec["status"]
    # ---- reference (RFC 9110 14.1.2)
    if A is None and B is None:
        kind = "invalid"
    elif A is not None and B is not None and bool(A > B):
        kind = "invalid"
    elif A is not None:
        if bool(A >= size):
            kind = "unsat"
        else:
            kind = "sat"
            off = A
            last = size - 1 if (B is None or bool(B >= size)) else B
            cnt = last - off + 1
    else:  # suffix
        if bool(B == 0) or bool(size == 0):
            kind = "unsat"
        else:
            kind = "sat"
            cnt = size if bool(B >= size) else B
            off = size - cnt
    tag = f"{kind}:{status}"
    parts = []
    key = None
    if kind == "sat":
        parts.append(status == 206)
        if status != 206:
            key = f"satisfiable-range-answered-{status}"
        else:
            got_off = rec.get("offset", 0) if rec["via"] == "sendfile" else None
            if rec["via"] != "sendfile":
                parts.append(False)
                key = "206-without-body"
            else:
                parts += [sym_eq(rec["offset"], off), sym_eq(rec["count"], cnt),
                          sym_eq(rec["content_length"], _num(cnt)),
                          sym_eq(rec["content_range"], "bytes " + _num(off) + "-" + _num(off + cnt - 1) + "/" + _num(size))]
                key = "206-slice-or-headers-inconsistent"
    elif kind == "unsat":
        parts.append(status == 416)
        if status == 416:
            parts.append(sym_eq(rec["content_range"], "bytes */" + _num(size)))
            key = "416-content-range"
        else:
            key = f"unsatisfiable-range-answered-{status}:" + ("suffix-zero" if (A is None and not bool(size == 0)) else
                                                               ("empty-file-suffix" if A is None else "first-pos-beyond-end"))
    else:
        ok416 = status == 416
        ok200 = status == 200 and rec["via"] == "sendfile" if not bool(size == 0) else status == 200
        parts.append(ok416 or ok200)
        if ok416:
            parts.append(sym_eq(rec["content_range"], "bytes */" + _num(size)))
        key = f"invalid-range-answered-{status}"
    f = H.fall(parts)
    info = None
    if f is not True:
        info = {"key": key}
        if not ctx.symbolic:
            info.update(header=header, size=size, rec={k: (str(v) if not isinstance(v, (int, str, type(None))) else v)
                                                        for k, v in rec.items()})
    return f, tag, info


def malformed(ctx, n=3, prefix="bytes="):
    """header with a fully symbolic tail: anything not of the form digits-digits is
    answered 416 (or ignored); never an exception, never a 206 with nonsense"""
    size = ctx.int("size", 0, 50)
    tail = ctx.str("t", n, list(range(48, 58)) + [ord(c) for c in "- ,=+.a"])
    header = prefix + tail
    try:
        rec = _serve(header, size)
    except Exception as e:  # noqa: BLE001
        return False, "raise", {"key": f"exception:{type(e).__name__}"}
    status = rec["status"]
    parts = [H.fany([status == 416, status == 200, status == 206])]
    key = "malformed-range-handling"
    if status == 206:
        if rec.get("via") != "sendfile" or rec.get("offset") is None or rec.get("count") is None:
            # a 206 that does not go through the byte-range send path carries no body slice at all
            parts.append(False)
            key = "206-without-a-byte-range-body"
        else:
            parts += [rec["offset"] >= 0, rec["count"] >= 1, rec["offset"] + rec["count"] <= size]
    f = H.fall(parts)
    return f, f"status:{status}", (None if f is True else {"key": key})


def no_range(ctx):
    size = ctx.int("size", 0, 10 ** 6)
    rec = _serve(None, size)
    f = H.fall([rec["status"] == 200, rec["content_range"] is None, sym_eq(rec["content_length"], _num(size)),
                (rec["via"] == "prepare") if bool(size == 0) else H.fall([rec["via"] == "sendfile",
                                                                          sym_eq(rec["offset"], 0),
                                                                          sym_eq(rec["count"], size)])])
    return f, "plain", (None if f is True else {"key": "whole-file-response"})


def twin(ctx):
    f, tag, info = range_arith(ctx, 1, 20)
    return False, tag, {"key": "twin"}


def setup_models():
    from symx import hook

    hook.RENDER_SINT = True


def jobs(tier):
    quick = tier == "quick"
    lim = {"time_limit": 110 if quick else 1800}
    out = [dict(name="no-range", func="no_range", params={}, limits=lim)]
    out.append(dict(name="range-2digits", func="range_arith", params=dict(maxdigits=2, size_hi=150), limits=lim))
    if not quick:
        out.append(dict(name="range-3digits", func="range_arith", params=dict(maxdigits=3, size_hi=1500), limits=lim))
    for n in ((1, 2, 3) if quick else (1, 2, 3, 4)):
        out.append(dict(name=f"malformed-{n}", func="malformed", params=dict(n=n), limits=lim))
    return out


def twins(tier):
    return [dict(name="twin", func="twin", params={}, limits={"time_limit": 30, "max_paths": 30})]


REQUIRED_OUTCOMES = ("sat:206", "unsat:416", "invalid:416", "plain")


def bounds(tier):
    return {"file_size": "one symbolic integer in 0..150 (quick) / 0..1500 with the digit strings; 0..10^6 without Range",
            "range_header": "'bytes=A-B', A and B symbolic digit strings of 0..2 (quick) / 0..3 digits; malformed tails of 1..3 (4) symbolic characters over digits and '- ,=+.a'",
            "conditional_headers": "not in this tier"}

"""C15 Static files: Range / conditional arithmetic of FileResponse (claimed part).

Real code: BaseRequest.http_range, FileResponse._prepare_open_file (status, offset,
count, Content-Range, Content-Length), FileResponse._make_response decision table.
Confinement under symlinks / normalisation is NOT claimed: decided by os.path,
pathlib.resolve and the kernel (FFI).
"""
from __future__ import annotations

from harness import common as H
from symx import core
from symx.core import SInt, SSeq, sym_eq

PID = "C15"
EXPLANATION = (
    "The real FileResponse._prepare_open_file coroutine and BaseRequest.http_range run with a symbolic file size "
    "(one integer, 0..10^6) and a Range header 'bytes=A-B' whose A and B are symbolic digit strings of 0-3 digits "
    "(plus fully symbolic short headers for the malformed case); the transport layer is cut at super().prepare / "
    "_sendfile, which record status, offset, count and headers. Per path z3 decides agreement with RFC 9110 14.1.2 / "
    "15.3.7 / 15.5.17: 206 implies 0 <= offset, count >= 1, offset+count <= size, Content-Range = "
    "offset-(offset+count-1)/size and Content-Length = count; unsatisfiable ranges give 416 with Content-Range */size. "
    "The whole FileResponse.prepare decision table (If-Match, If-Unmodified-Since, If-None-Match, If-Modified-Since, Range + If-Range with dates and entity-tags, GET and HEAD) is enumerated by the solver over a file with fixed mtime/size/ETag and compared with RFC 9110 13.2.2 precedence and 13.1.5.")
ASSUMPTIONS = [
    "os.stat result is a stub object with symbolic st_size (fixed size and mtime for the conditional table, dates placed before / at / after the mtime); the file object is never read (body bytes are written by sendfile / the kernel: FFI)",
    "StreamResponse.prepare and FileResponse._sendfile are recording stubs",
    "a syntactically invalid or malformed Range header may be answered 416 or ignored (200, whole file): RFC 9110 14.2 allows both",
    "path confinement, symlink policy and directory listing are decided only on concrete request targets chosen by the solver from a fixed segment alphabet over one real directory tree (os.path / pathlib / the kernel resolve the path: no code to execute symbolically)",
]
TRUSTED = []


class _St:
    def __init__(self, size, mtime=1_600_000_000.0):
        self.st_size = size
        self.st_mtime = mtime
        self.st_mtime_ns = int(mtime) * 10 ** 9 if isinstance(mtime, (int, float)) else 0
        self.st_mode = 0o100644


def _run(coro):
    try:
        coro.send(None)
    except StopIteration as e:
        return e.value
    raise RuntimeError("suspended")


def _digits(ctx, name, maxlen):
    n = ctx.choice(name + "_len", maxlen + 1)
    return ctx.str(name, n, range(48, 58)) if n else ""


def _val(s):
    """integer value of a digit string (symbolic or not); None if empty"""
    if len(s) == 0:
        return None
    v = 0
    for x in (s.b if isinstance(s, SSeq) else [ord(c) for c in s]):
        v = v * 10 + (x - 48)
    return v if isinstance(v, int) else SInt(v)


_ORIG = {}


def _originals():
    """the real methods the unit harnesses replace by recorders (worker processes are shared by jobs)"""
    from aiohttp import web_fileresponse, web_response

    if not _ORIG:
        _ORIG["prepare"] = web_response.StreamResponse.prepare
        _ORIG["sendfile"] = web_fileresponse.FileResponse._sendfile
        _ORIG["stat"] = web_fileresponse.FileResponse._get_file_path_stat_encoding
    return _ORIG


def _restore_originals():
    from aiohttp import web_fileresponse, web_response

    o = _originals()
    web_response.StreamResponse.prepare = o["prepare"]
    web_fileresponse.FileResponse._sendfile = o["sendfile"]
    web_fileresponse.FileResponse._get_file_path_stat_encoding = o["stat"]


def _serve(range_header, size):
    from aiohttp import web, web_fileresponse, web_response
    from aiohttp.test_utils import make_mocked_request
    import pathlib

    _restore_originals()
    rec = {}

    async def fake_prepare(self, request):
        rec["via"] = "prepare"
        return None

    async def fake_sendfile(self, request, fobj, offset, count):
        rec["via"] = "sendfile"
        rec["offset"] = offset
        rec["count"] = count
        return None

    web_response.StreamResponse.prepare = fake_prepare
    web_fileresponse.FileResponse._sendfile = fake_sendfile
    hdrs = {} if range_header is None else {"Range": range_header}
    req = make_mocked_request("GET", "/f.bin", headers=hdrs)
    resp = web.FileResponse(pathlib.Path("/nonexistent/f.bin"))
    _run(resp._prepare_open_file(req, None, _St(size), None))
    rec["status"] = resp.status
    rec["content_range"] = resp.headers.get("Content-Range")
    rec["content_length"] = resp.headers.get("Content-Length")
    return rec


def _num(x):
    """render an int / SInt the way the response does (decimal)"""
    from symx import hook

    if isinstance(x, SInt):
        return hook.sint_to_str(x)
    return str(x)


def range_arith(ctx, maxdigits=2, size_hi=1000):
    size = ctx.int("size", 0, size_hi)
    a = _digits(ctx, "a", maxdigits)
    b = _digits(ctx, "b", maxdigits)
    header = "bytes=" + a + "-" + b
    rec = _serve(header, size)
    A, B = _val(a), _val(b)
    status = rec["status"]
    # ---- reference (RFC 9110 14.1.2)
    if A is None and B is None:
        kind = "invalid"
    elif A is not None and B is not None and bool(A > B):
        kind = "invalid"
    elif A is not None:
        if bool(A >= size):
            kind = "unsat"
        else:
            kind = "sat"
            off = A
            last = size - 1 if (B is None or bool(B >= size)) else B
            cnt = last - off + 1
    else:  # suffix
        if bool(B == 0) or bool(size == 0):
            kind = "unsat"
        else:
            kind = "sat"
            cnt = size if bool(B >= size) else B
            off = size - cnt
    tag = f"{kind}:{status}"
    parts = []
    key = None
    if kind == "sat":
        parts.append(status == 206)
        if status != 206:
            key = f"satisfiable-range-answered-{status}"
        else:
            got_off = rec.get("offset", 0) if rec["via"] == "sendfile" else None
            if rec["via"] != "sendfile":
                parts.append(False)
                key = "206-without-body"
            else:
                parts += [sym_eq(rec["offset"], off), sym_eq(rec["count"], cnt),
                          sym_eq(rec["content_length"], _num(cnt)),
                          sym_eq(rec["content_range"], "bytes " + _num(off) + "-" + _num(off + cnt - 1) + "/" + _num(size))]
                key = "206-slice-or-headers-inconsistent"
    elif kind == "unsat":
        parts.append(status == 416)
        if status == 416:
            parts.append(sym_eq(rec["content_range"], "bytes */" + _num(size)))
            key = "416-content-range"
        else:
            key = f"unsatisfiable-range-answered-{status}:" + ("suffix-zero" if (A is None and not bool(size == 0)) else
                                                               ("empty-file-suffix" if A is None else "first-pos-beyond-end"))
    else:
        ok416 = status == 416
        ok200 = status == 200 and rec["via"] == "sendfile" if not bool(size == 0) else status == 200
        parts.append(ok416 or ok200)
        if ok416:
            parts.append(sym_eq(rec["content_range"], "bytes */" + _num(size)))
        key = f"invalid-range-answered-{status}"
    f = H.fall(parts)
    info = None
    if f is not True:
        info = {"key": key}
        if not ctx.symbolic:
            info.update(header=header, size=size, rec={k: (str(v) if not isinstance(v, (int, str, type(None))) else v)
                                                        for k, v in rec.items()})
    return f, tag, info


def malformed(ctx, n=3, prefix="bytes="):
    """header with a fully symbolic tail: anything not of the form digits-digits is
    answered 416 (or ignored); never an exception, never a 206 with nonsense"""
    size = ctx.int("size", 0, 50)
    tail = ctx.str("t", n, list(range(48, 58)) + [ord(c) for c in "- ,=+.a"])
    header = prefix + tail
    try:
        rec = _serve(header, size)
    except Exception as e:  # noqa: BLE001
        return False, "raise", {"key": f"exception:{type(e).__name__}"}
    status = rec["status"]
    parts = [H.fany([status == 416, status == 200, status == 206])]
    key = "malformed-range-handling"
    if status == 206:
        if rec.get("via") != "sendfile" or rec.get("offset") is None or rec.get("count") is None:
            # a 206 that does not go through the byte-range send path carries no body slice at all
            parts.append(False)
            key = "206-without-a-byte-range-body"
        else:
            parts += [rec["offset"] >= 0, rec["count"] >= 1, rec["offset"] + rec["count"] <= size]
    f = H.fall(parts)
    return f, f"status:{status}", (None if f is True else {"key": key})


def no_range(ctx):
    size = ctx.int("size", 0, 10 ** 6)
    rec = _serve(None, size)
    f = H.fall([rec["status"] == 200, rec["content_range"] is None, sym_eq(rec["content_length"], _num(size)),
                (rec["via"] == "prepare") if bool(size == 0) else H.fall([rec["via"] == "sendfile",
                                                                          sym_eq(rec["offset"], 0),
                                                                          sym_eq(rec["count"], size)])])
    return f, "plain", (None if f is True else {"key": "whole-file-response"})

# ---- conditional requests: the whole FileResponse.prepare decision table --------------------------
MTIME = 1_700_000_000  # Tue, 14 Nov 2023 22:13:20 GMT
SIZE = 10
ETAG = f"{MTIME * 10 ** 9:x}-{SIZE:x}"


def _http_date(ts):
    import email.utils

    return email.utils.formatdate(ts, usegmt=True)


def _etag_forms(etag):
    """etag: the quoted entity-tag the implementation itself announced for the file"""
    return {"absent": None, "any": "*", "match": etag, "weak-match": "W/" + etag, "other": '"deadbeef-1"',
            "list-with-match": '"x", ' + etag}


ETAG_FORM_NAMES = ["absent", "any", "list-with-match", "match", "other", "weak-match"]
DATE_FORMS = {"absent": None, "earlier": _http_date(MTIME - 10), "equal": _http_date(MTIME), "later": _http_date(MTIME + 10),
              "garbage": "yesterday"}


def conditional(ctx, method="GET"):
    """If-Match / If-Unmodified-Since / If-None-Match / If-Modified-Since / If-Range + Range against one
    file (mtime, size and hence ETag fixed): status, validators, Content-Range / Content-Length and the
    byte slice handed to sendfile follow RFC 9110 13.2.2 (precedence) and 13.1.5 (If-Range)."""
    import pathlib

    from aiohttp import web, web_fileresponse, web_response
    from aiohttp.test_utils import make_mocked_request

    from harness.vloop import VLoop, install

    install(VLoop())
    _restore_originals()
    rec = {}

    async def fake_prepare(self, request):
        rec["via"] = "prepare"
        return None

    async def fake_sendfile(self, request, fobj, offset, count):
        rec["via"] = "sendfile"
        rec["offset"] = offset
        rec["count"] = count
        return None

    class _F:
        def fileno(self):
            raise OSError("no descriptor")

        def close(self):
            rec["closed"] = True

    class _P:
        suffix = ".bin"
        name = "f.bin"

        def open(self, mode):
            return _F()

        def __fspath__(self):
            return "/nonexistent/f.bin"

    class _S:
        st_size = SIZE
        st_mtime = float(MTIME)
        st_mtime_ns = MTIME * 10 ** 9
        st_mode = 0o100644

    web_response.StreamResponse.prepare = fake_prepare
    web_fileresponse.FileResponse._sendfile = fake_sendfile
    web_fileresponse.FileResponse._get_file_path_stat_encoding = lambda self, ae: (_P(), _S(), None)
    # learn the entity-tag from an unconditional response (its format is the implementation's business)
    probe = web.FileResponse(pathlib.Path("/nonexistent/f.bin"))
    probe._path = _P()
    _run(probe.prepare(make_mocked_request("GET", "/f.bin")))
    etag = probe.headers.get("ETag")
    if not etag or not etag.startswith('"'):
        return False, "inv:cond", {"key": "no-strong-etag-on-plain-response", "etag": etag}
    rec.clear()
    ETAG_FORMS = _etag_forms(etag)
    im = ctx.pick("if_match", ETAG_FORM_NAMES)
    inm = ctx.pick("if_none_match", ETAG_FORM_NAMES)
    ius = ctx.pick("if_unmodified_since", sorted(DATE_FORMS))
    ims = ctx.pick("if_modified_since", sorted(DATE_FORMS))
    rng = ctx.pick("range", ["absent", "bytes=2-5"])
    ifr = ctx.pick("if_range", sorted(DATE_FORMS) + ["etag-match", "etag-other"]) if rng != "absent" else "absent"
    h = {}
    for name, val in (("If-Match", ETAG_FORMS[im]), ("If-None-Match", ETAG_FORMS[inm]),
                      ("If-Unmodified-Since", DATE_FORMS[ius]), ("If-Modified-Since", DATE_FORMS[ims]),
                      ("Range", None if rng == "absent" else rng),
                      ("If-Range", DATE_FORMS.get(ifr) if ifr in DATE_FORMS else (etag if ifr == "etag-match" else '"deadbeef-1"'))):
        if val is not None:
            h[name] = val
    req = make_mocked_request(method, "/f.bin", headers=h)
    resp = web.FileResponse(pathlib.Path("/nonexistent/f.bin"))
    resp._path = _P()
    _run(resp.prepare(req))
    status = resp.status
    got = {"status": status, "via": rec.get("via"), "offset": rec.get("offset"), "count": rec.get("count"),
           "content_range": resp.headers.get("Content-Range"), "content_length": resp.headers.get("Content-Length"),
           "etag": resp.headers.get("ETag"), "last_modified": resp.headers.get("Last-Modified")}
    # ---- RFC 9110 13.2.2
    strong = {"any": True, "match": True, "list-with-match": True, "weak-match": False, "other": False}
    weak = dict(strong, **{"weak-match": True})
    date_valid = lambda f: f in ("earlier", "equal", "later")  # noqa: E731
    when = {"earlier": MTIME - 10, "equal": MTIME, "later": MTIME + 10}
    want = None
    if im != "absent":
        if not strong[im]:
            want = 412
    elif date_valid(ius) and MTIME > when[ius]:
        want = 412
    if want is None:
        if inm != "absent":
            if weak[inm]:
                want = 304
        elif date_valid(ims) and MTIME <= when[ims]:
            want = 304
    either = ()
    if want is None:
        want = 200
        if rng != "absent":
            if ifr in ("absent", "garbage"):
                want = 206  # no (usable) validator: the Range is honoured
            elif ifr == "equal" or ifr == "etag-match":
                want = 206
            elif ifr == "later":
                either = (200, 206)  # not an exact match (RFC: ignore Range); the file is unchanged, the slice is right
            else:
                want = 200  # changed since / another entity: the Range MUST be ignored
    info = {"headers": h, "method": method, "got": got, "want": want}
    if either:
        if status not in either:
            info["key"] = f"conditional-status:{status}-instead-of-{either[0]}-or-{either[1]}"
            return False, "inv:cond", info
        want = status
    if status != want:
        shape = "if-range-etag-ignored" if ifr.startswith("etag") else ("if-range" if want in (200, 206) and status in (200, 206) else "precondition")
        info["key"] = f"conditional-status:{status}-instead-of-{want}:{shape}"
        return False, "inv:cond", info
    bodyless = method == "HEAD"
    if status == 412:
        ok = got["via"] == "prepare"
    elif status == 304:
        ok = got["via"] == "prepare" and got["etag"] == etag and got["content_range"] is None
    elif status == 200:
        ok = got["content_length"] == str(SIZE) and got["content_range"] is None and got["etag"] == etag and \
            (got["via"] == "prepare" if bodyless else (got["via"] == "sendfile" and (got["offset"], got["count"]) == (0, SIZE)))
    else:
        ok = got["content_length"] == "4" and got["content_range"] == f"bytes 2-5/{SIZE}" and \
            (got["via"] == "prepare" if bodyless else (got["via"] == "sendfile" and (got["offset"], got["count"]) == (2, 4)))
    if not ok:
        info["key"] = f"conditional-response-inconsistent:{status}"
        return False, "inv:cond", info
    return True, f"cond:{status}", None

# ---- confinement of a static route (concrete targets chosen by the solver; the file system is real) --------
STATIC_SEGMENTS = ["..", "%2e%2e", "%2E.", ".", "sub", "link_out", "link_file", "link_in", "secret.txt", "inner.txt",
                   "file.txt", "", "%2f", "%5c..", "..%2f..", "outside", "%2e%2e%2foutside", "..\\outside",
                   "link_sibling", "..%2Froot-private", "..%2froot-private%2fsecret.txt"]


def static_confinement(ctx, nseg=3, first=None):
    """A request target assembled from solver-chosen segments is served by a real static route over a
    real directory tree with symlinks: bytes of a file outside the root are never returned unless
    follow_symlinks was enabled, and a directory index appears only with show_index."""
    import asyncio
    import logging
    import os
    import shutil
    import tempfile

    from aiohttp import web

    from harness.vloop import MemTransport, VLoop, install

    logging.disable(logging.CRITICAL)
    loop = install(VLoop())
    _restore_originals()
    base = tempfile.mkdtemp(prefix="verif-c15-", dir="/var/tmp")
    try:
        root = os.path.join(base, "root")
        os.makedirs(os.path.join(root, "sub"))
        os.makedirs(os.path.join(base, "outside"))
        open(os.path.join(root, "file.txt"), "wb").write(b"ROOT-FILE")
        open(os.path.join(root, "sub", "inner.txt"), "wb").write(b"INNER-FILE")
        open(os.path.join(base, "outside", "secret.txt"), "wb").write(b"SECRET-OUTSIDE")
        os.symlink(os.path.join(base, "outside"), os.path.join(root, "link_out"))
        os.symlink(os.path.join(base, "outside", "secret.txt"), os.path.join(root, "link_file"))
        os.symlink(os.path.join(root, "sub"), os.path.join(root, "link_in"))
        # a sibling whose path merely starts with the root's path string
        os.makedirs(os.path.join(base, "root-private"))
        open(os.path.join(base, "root-private", "secret.txt"), "wb").write(b"SECRET-OUTSIDE-SIBLING")
        os.symlink(os.path.join(base, "root-private"), os.path.join(root, "link_sibling"))
        follow = ctx.flag("break_symlink_sandbox")
        index = ctx.flag("show_index")
        app = web.Application()
        app.router.add_static("/static", root, break_symlink_sandbox=follow, show_index=index)
        runner = web.AppRunner(app, handle_signals=False, access_log=None)
        asyncio.Task(runner.setup(), loop=loop)
        loop.run_ready()
        proto = runner.server()
        tr = MemTransport()
        proto.connection_made(tr)
        segs = [first] if first is not None else []
        n = ctx.choice("nseg", nseg) + 1
        while len(segs) < n:
            segs.append(ctx.pick(f"s{len(segs)}", STATIC_SEGMENTS))
        target = "/static/" + "/".join(segs)
        proto.data_received(b"GET " + target.encode() + b" HTTP/1.1\r\nHost: site\r\n\r\n")
        loop.run_ready()
        loop.advance(0.1)
        out = bytes(tr.out)
        status = int(out.split(b" ")[1]) if out.startswith(b"HTTP/") else 0
        body = out.split(b"\r\n\r\n", 1)[1] if b"\r\n\r\n" in out else b""
        info = {"target": target, "follow_symlinks": follow, "show_index": index, "status": status,
                "body": body[:120].decode("latin1")}
        via_link = any(x.startswith("link_out") or x.startswith("link_file") or x.startswith("link_sibling") for x in segs)
        if b"SECRET-OUTSIDE" in body and not (follow and via_link):
            info["key"] = "file-outside-root-served" + ("" if follow else ":follow_symlinks-off")
            return False, "inv:static", info
        if b"secret.txt" in body and b"Index of" in body and not (follow and via_link):
            info["key"] = "directory-outside-root-listed"
            return False, "inv:static", info
        if b"Index of" in body and not index:
            info["key"] = "directory-index-without-show_index"
            return False, "inv:static", info
        if status == 0:
            info["key"] = "no-response-to-static-request"
            return False, "inv:static", info
        if status == 200 and body == b"ROOT-FILE":
            return True, "static:file", None
        if status == 200 and b"SECRET-OUTSIDE" in body:
            return True, "static:followed-link", None
        return True, f"static:{status}", None
    finally:
        shutil.rmtree(base, ignore_errors=True)


def twin(ctx):
    f, tag, info = range_arith(ctx, 1, 20)
    return False, tag, {"key": "twin"}


def setup_models():
    from symx import hook

    hook.RENDER_SINT = True


def jobs(tier):
    quick = tier == "quick"
    lim = {"time_limit": 110 if quick else 1800}
    out = [dict(name="no-range", func="no_range", params={}, limits=lim)]
    out.append(dict(name="range-2digits", func="range_arith", params=dict(maxdigits=2, size_hi=150), limits=lim))
    if not quick:
        out.append(dict(name="range-3digits", func="range_arith", params=dict(maxdigits=3, size_hi=1500), limits=lim))
    for n in ((1, 2, 3) if quick else (1, 2, 3, 4)):
        out.append(dict(name=f"malformed-{n}", func="malformed", params=dict(n=n), limits=lim))
    for m in ("GET", "HEAD"):
        out.append(dict(name=f"conditional-{m}", func="conditional", params=dict(method=m), limits=lim))
    for i, sg in enumerate(STATIC_SEGMENTS):
        out.append(dict(name=f"static-{i}", func="static_confinement", params=dict(nseg=3 if quick else 4, first=sg),
                        limits=lim))
    return out


def twins(tier):
    return [dict(name="twin", func="twin", params={}, limits={"time_limit": 30, "max_paths": 30})]


REQUIRED_OUTCOMES = ("sat:206", "unsat:416", "invalid:416", "plain", "cond:304", "cond:412", "cond:206", "static:file", "static:followed-link", "static:404")


def bounds(tier):
    return {"file_size": "one symbolic integer in 0..150 (quick) / 0..1500 with the digit strings; 0..10^6 without Range",
            "range_header": "'bytes=A-B', A and B symbolic digit strings of 0..2 (quick) / 0..3 digits; malformed tails of 1..3 (4) symbolic characters over digits and '- ,=+.a'",
            "conditional_headers": "If-Match / If-None-Match in {absent, *, matching, weak matching, other, list containing the match} x If-Unmodified-Since / If-Modified-Since in {absent, earlier, equal, later, unparsable} x Range {absent, bytes=2-5} x If-Range {absent, earlier, equal, later, unparsable, matching entity-tag, other entity-tag} x GET/HEAD on a file of 10 bytes (complete table through the real FileResponse.prepare)"}

"""Shared pieces for the HTTP parser harnesses (C01, C03, C10, C09)."""
from __future__ import annotations

from symx import core
from symx.core import SSeq, SStr, conj, disj, sym_eq


class SymCIMultiDict:
    """Environment model of multidict.CIMultiDict (case-insensitive multimap kept
    as a list of pairs; key identity = str.lower()).  Substituted for the C type in
    aiohttp.http_parser while keys may be symbolic.  Listed in ASSUMPTIONS."""

    def __init__(self, arg=None):
        self._items = []
        if arg is not None:
            for k, v in (arg.items() if hasattr(arg, "items") else arg):
                self.add(k, v)

    @staticmethod
    def _ident(key):
        return key.lower()

    def add(self, key, value):
        self._items.append((self._ident(key), key, value))

    def _match(self, ident, key):
        r = ident == self._ident(key)
        return bool(r)

    def getall(self, key, default=None):
        out = [v for (i, _k, v) in self._items if self._match(i, key)]
        if not out:
            if default is not None:
                return default
            raise KeyError(key if isinstance(key, str) else "<sym>")
        return out

    def getone(self, key, default=None):
        for (i, _k, v) in self._items:
            if self._match(i, key):
                return v
        if default is not None:
            return default
        raise KeyError(key if isinstance(key, str) else "<sym>")

    def get(self, key, default=None):
        for (i, _k, v) in self._items:
            if self._match(i, key):
                return v
        return default

    __getitem__ = getone

    def __contains__(self, key):
        for (i, _k, _v) in self._items:
            if self._match(i, key):
                return True
        return False

    def __iter__(self):
        return iter([k for (_i, k, _v) in self._items])

    def keys(self):
        return [k for (_i, k, _v) in self._items]

    def values(self):
        return [v for (_i, _k, v) in self._items]

    def items(self):
        return [(k, v) for (_i, k, v) in self._items]

    def __len__(self):
        return len(self._items)

    def __eq__(self, other):
        return NotImplemented


class URLStub:
    """Stand-in for yarl.URL when the request-target holds symbolic characters.
    Records its arguments.  Construction of non-origin-form targets from symbolic
    text is outside the bound of the calling harness (ctx.note + Abort)."""

    def __init__(self, val="", *, encoded=False, _parts=None):
        self.raw = val
        self.parts = _parts
        self.absolute = None

    @classmethod
    def build(cls, **kw):
        return cls("", _parts=kw)

    def __repr__(self):
        return "<URLStub>"


def install_url_policy(hp, policy="origin-only"):
    """hp: the instrumented aiohttp.http_parser module.
    concrete arguments -> real yarl.URL (exact).  symbolic arguments:
      URL.build(path=.., query_string=.., fragment=..)  (origin-form) -> stub
      anything else -> out of the harness' bound."""
    import yarl

    real = yarl.URL

    class URLPolicy:
        def __new__(cls, val="", *, encoded=False):
            if isinstance(val, SSeq):
                ctx = core.Ctx.cur
                ctx.note("out-of-bound: symbolic non-origin-form request-target")
                raise core.Abort()
            return real(val, encoded=encoded)

        @staticmethod
        def build(**kw):
            if any(isinstance(v, SSeq) for v in kw.values()):
                if "authority" in kw:
                    ctx = core.Ctx.cur
                    ctx.note("out-of-bound: symbolic CONNECT authority")
                    raise core.Abort()
                return URLStub.build(**kw)
            return real.build(**kw)

    hp.URL = URLPolicy


class StubProtocol:
    """protocol seen by parser and StreamReader: flow control is counted, not acted on"""

    def __init__(self):
        self._reading_paused = False
        self.pauses = 0
        self.resumes = 0
        self.connected = True
        self._upgraded = False
        self._parser = None
        self.transport = None

    def pause_reading(self):
        self._reading_paused = True
        self.pauses += 1
        if self._parser is not None and not self._upgraded:
            self._parser.pause_reading()

    def resume_reading(self, resume_parser=True):
        self._reading_paused = False
        self.resumes += 1


def setup_parser_models():
    import aiohttp.http_parser as hp

    hp.CIMultiDict = SymCIMultiDict
    install_url_policy(hp)


def stream_body(payload):
    """(bytes buffered, eof?, exception type name, chunk splits)"""
    from aiohttp.streams import EmptyStreamReader

    if isinstance(payload, EmptyStreamReader):
        return b"", True, None, None
    buf = b""
    first = True
    for c in payload._buffer:
        if first and payload._buffer_offset:
            c = c[payload._buffer_offset:]
        first = False
        buf = buf + c
    exc = payload._exception
    splits = list(payload._http_chunk_splits) if payload._http_chunk_splits is not None else None
    return buf, payload._eof, (type(exc).__name__ if exc is not None else None), splits


class ImplResult:
    def __init__(self):
        self.msgs = []  # (RawRequestMessage, payload)
        self.rejected = None  # exception instance (HttpProcessingError) of the call that raised
        self.reject_call = None
        self.escaped = None  # any other exception
        self.upgraded = False
        self.tail = b""
        self.retained_max = 0


def run_request_parser(chunks, *, max_line_size=8190, max_field_size=8190, max_headers=128,
                       limit=2 ** 16, eof=False, parser_cls=None, **kw):
    import asyncio
    from aiohttp.http_exceptions import HttpProcessingError
    from aiohttp import http_parser as hp

    proto = StubProtocol()
    cls = parser_cls or hp.HttpRequestParser
    p = cls(proto, None, limit, max_line_size=max_line_size, max_field_size=max_field_size,
            max_headers=max_headers, **kw)
    proto._parser = p
    r = ImplResult()
    r.parser = p
    r.proto = proto
    for i, c in enumerate(chunks):
        try:
            msgs, upgraded, tail = p.feed_data(c)
        except HttpProcessingError as e:
            r.rejected = e
            r.reject_call = i
            break
        except Exception as e:  # noqa: BLE001 - totality is what C10 checks
            r.escaped = e
            r.reject_call = i
            break
        r.msgs.extend(msgs)
        r.upgraded = upgraded
        if tail:
            r.tail = r.tail + tail
        retained = len(p._tail) + sum(len(x) for x in p._lines)
        pp = p._payload_parser
        if pp is not None:
            retained += len(pp._chunk_tail) + sum(len(x) for x in pp._trailer_lines)
        if retained > r.retained_max:
            r.retained_max = retained
    else:
        if eof:
            try:
                p.feed_eof()
            except HttpProcessingError as e:
                r.rejected = e
                r.reject_call = len(chunks)
            except Exception as e:  # noqa: BLE001
                r.escaped = e
                r.reject_call = len(chunks)
    return r

"""C05 Server connection: each request answered once, in order, or connection closed.

Real code: web_protocol.RequestHandler (connection_made/data_received/start/
_handle_request/finish_response/handle_error/pause-resume of the message queue/
keep_alive/force_close/connection_lost), web_server.Server, web_app.Application._handle,
web_request.BaseRequest, HttpRequestParser, StreamWriter, web_response - all real,
on a deterministic virtual-time loop with an in-memory transport.
Oracle: refs/ref_http.parse_responses (independent response framer).
"""
from __future__ import annotations

import asyncio

from harness import common as H
from harness.vloop import MemTransport, VLoop, install
from symx import core

PID = "C05"
EXPLANATION = (
    "A script of 1-3 feed steps is chosen by the solver: each step delivers one stream from an alphabet (valid "
    "pipelines of depth 1..MAX_MSG_QUEUE_SIZE+2, bodies with Content-Length / chunked, HTTP/1.0, Connection: close, "
    "declined Upgrade requests with pipelined tails, Expect: 100-continue, every C01 reject class, hostile targets), "
    "cut into two reads at a solver-chosen position; per-request handler behaviour is solver-chosen from {return, raise "
    "Exception, raise HTTPException, raise TimeoutError, return without reading the body, read the body, stream, return "
    "a non-response, sleep}; optional peer disconnect. The bytes written to the in-memory transport are split by an "
    "independent framer. After every step: responses complete, well-formed, at most one per request, in request order; "
    "unparsable input answered 4xx and the transport closed; never an open transport with an unanswered request and no "
    "handler running; no call of the loop exception handler, no exception out of data_received; queue within its cap.")
ASSUMPTIONS = [
    "streams are concrete (selected by symbolic indices) with one optional symbolic byte in a header value; the request parser's own input space is C01/C03/C10",
    "virtual time; access log disabled; TLS absent; websocket upgrade acceptance is C13",
    "handler order is identified by a tag in the request path echoed in the response body",
]
TRUSTED = ["refs/ref_http.parse_responses", "harness/vloop.py"]


def _req(path, method="GET", extra=b"", body=b"", version=b"1.1"):
    return method.encode() + b" " + path.encode() + b" HTTP/" + version + b"\r\nHost: x\r\n" + extra + b"\r\n" + body


STREAMS = {
    "get1": _req("/r0"),
    "pipe3": _req("/r0") + _req("/r1") + _req("/r2"),
    "post-cl": _req("/r0", "POST", b"Content-Length: 5\r\n", b"hello") + _req("/r1"),
    "post-chunked": _req("/r0", "POST", b"Transfer-Encoding: chunked\r\n", b"3\r\nabc\r\n2\r\nde\r\n0\r\n\r\n") + _req("/r1"),
    "head-get": _req("/r0", "HEAD") + _req("/r1"),
    "close": _req("/r0", extra=b"Connection: close\r\n"),
    "http10": _req("/r0", version=b"1.0"),
    "http10-ka": _req("/r0", version=b"1.0", extra=b"Connection: keep-alive\r\n") + _req("/r1", version=b"1.0"),
    "upgrade-declined-tail": _req("/r0", extra=b"Connection: upgrade\r\nUpgrade: websocket\r\n") + _req("/r1") + _req("/r2"),
    "upgrade-declined": _req("/r0", extra=b"Connection: upgrade\r\nUpgrade: websocket\r\n"),
    "expect": _req("/r0", "POST", b"Expect: 100-continue\r\nContent-Length: 2\r\n", b"hi"),
    "bad-lf": b"GET /r0 HTTP/1.1\nHost: x\r\n\r\n",
    "bad-te-cl": _req("/r0", "POST", b"Content-Length: 3\r\nTransfer-Encoding: chunked\r\n", b"0\r\n\r\n"),
    "valid-then-garbage": _req("/r0") + b"\x00\x01garbage\r\n\r\n",
    "bad-target-ipv6": b"GET http://[ HTTP/1.1\r\nHost: x\r\n\r\n",
    "bad-target-port": b"GET http://a:b/ HTTP/1.1\r\nHost: x\r\n\r\n",
    "bad-target-idna": b"GET http://xn--a/ HTTP/1.1\r\nHost: x\r\n\r\n",
    "connect-bad-port": b"CONNECT host:99999999 HTTP/1.1\r\nHost: host\r\n\r\n",
    "bad-chunk": _req("/r0", "POST", b"Transfer-Encoding: chunked\r\n", b"zz\r\nabc\r\n0\r\n\r\n"),
    "partial-line": b"GET /r0 HTTP/1.1\r\nHost",
    "options-star": b"OPTIONS * HTTP/1.1\r\nHost: x\r\n\r\n",
    "connect": b"CONNECT a:80 HTTP/1.1\r\nHost: a\r\n\r\n",
    "deep": b"".join(_req(f"/r{i}") for i in range(34)),
    # a pipeline that fills the request queue while the last request's body is still arriving
    "deep-body-1": b"".join(_req(f"/r{i}") for i in range(31)) + _req("/r31", "POST", b"Content-Length: 30\r\n", b"0123456789abcdefghij"),
    "deep-body-2": b"klmnopqrst" + _req("/r32"),
}
BEHAVIOURS = ["ok", "raise", "http-exc", "timeout-exc", "ignore-body", "read-body", "stream", "none", "sleep",
              "stream-then-raise", "stream-then-http-exc", "stream-then-timeout"]


def _methods_and_paths(data):
    """requests a strict reader finds in the concatenated input (for order checks)"""
    from refs import ref_http

    res = ref_http.parse_requests(data, max_msgs=64)
    return res


def _cut_candidates(data):
    n = len(data)
    if n <= 70:
        return list(range(n + 1))
    marks = {0, n, n // 2, n - 1, 1}
    i = data.find(b"\r\n\r\n")
    while i >= 0 and len(marks) < 14:
        marks.update({i + 1, i + 3, i + 4})
        i = data.find(b"\r\n\r\n", i + 4)
    return sorted(m for m in marks if 0 <= m <= n)


def connection(ctx, nsteps=2, streams=None, behaviours=None, sym_hole=False, disconnect=True, first_stream=None,
               read_bufsize=None, first_whole=False):
    from aiohttp import web
    from refs import ref_http

    import logging

    logging.disable(logging.CRITICAL)
    loop = install(VLoop())
    names = list(streams or [n for n in STREAMS if not n.startswith("deep-body")])
    behs = list(behaviours or BEHAVIOURS)
    handled = []  # (path, behaviour)
    beh_for = {}

    async def handler(request):
        idx = len(handled)
        b = beh_for.get(idx)
        if b is None:
            b = ctx.pick(f"beh{idx}", behs) if idx < 3 else ("read-body" if request.method == "POST" else "ok")
            beh_for[idx] = b
        tag = request.path.strip("/") or "root"
        handled.append((tag, b))
        if b == "raise":
            raise RuntimeError("boom")
        if b == "http-exc":
            raise web.HTTPForbidden(text=tag)
        if b == "timeout-exc":
            raise asyncio.TimeoutError()
        if b == "read-body":
            await request.read()
        if b.startswith("stream"):
            resp = web.StreamResponse()
            await resp.prepare(request)
            await resp.write(tag.encode())
            if b == "stream-then-raise":
                raise RuntimeError("boom after the response began")
            if b == "stream-then-http-exc":
                raise web.HTTPForbidden(text="late")
            if b == "stream-then-timeout":
                raise asyncio.TimeoutError()
            await resp.write_eof()
            return resp
        if b == "none":
            return None
        if b == "sleep":
            await asyncio.sleep(5)
        return web.Response(text=tag)

    app = web.Application()
    app.router.add_route("*", "/{p:.*}", handler)
    kw = {} if read_bufsize is None else {"read_bufsize": read_bufsize}
    runner = web.AppRunner(app, handle_signals=False, access_log=None, keepalive_timeout=75, **kw)
    t = asyncio.Task(runner.setup(), loop=loop)
    loop.run_ready()
    proto = runner.server()
    tr = MemTransport()
    proto.connection_made(tr)
    loop.run_ready()
    fed = b""
    trace = []

    def fail(key, **kw):
        info = {"key": key, "trace": trace, "handled": handled}
        info.update(kw)
        if not ctx.symbolic:
            info["out"] = bytes(tr.out).decode("latin1")[:600]
        return False, "inv:" + key, info

    backlog = {"b": b""}  # bytes the kernel holds while the transport is paused

    def feed(piece):
        """the transport delivers what it holds unless reading is paused (as a real transport does)"""
        backlog["b"] = backlog["b"] + piece
        for _ in range(50):
            if not len(backlog["b"]) or tr.paused or tr.closed:
                break
            data, backlog["b"] = backlog["b"], b""
            try:
                proto.data_received(data)
            except Exception as e:  # noqa: BLE001
                return f"exception-escapes-data_received:{type(e).__name__}"
            loop.run_ready()
        return None

    lost = False
    for step in range(nsteps):
        name = first_stream if (first_stream and step == 0) else ctx.pick(f"s{step}", names)
        data = STREAMS[name]
        if sym_hole and step == 0 and b"Host: x" in data:
            i = data.index(b"Host: x") + 6
            data = data[:i] + ctx.bytes("hole", 1, "bytewise") + data[i + 1:]
        cands = _cut_candidates(bytes(data) if not isinstance(data, core.SSeq) else STREAMS[name])
        if first_whole and step == 0 and nsteps > 1:
            cands = [0]  # (every cut of a single stream is what the one-* jobs cover)
        cut = ctx.pick(f"cut{step}", cands)
        trace.append([name, cut])
        for piece in (data[:cut], data[cut:]):
            if not len(piece) or lost:
                continue
            fed = fed + piece
            if tr.closed:
                continue
            bad = feed(piece)
            if bad:
                return fail(bad)
            loop.run_ready()
            if loop.exc:
                return fail("loop-exception-handler-called", exc=str(loop.exc[0].get("exception")))
            if proto._messages is not None and len(proto._messages) > 32:
                return fail("message-queue-above-cap", n=len(proto._messages))
        # let handlers that sleep finish
        loop.advance(6)
        bad = feed(b"")
        if bad:
            return fail(bad)
        loop.run_ready()
        if loop.exc:
            return fail("loop-exception-handler-called", exc=str(loop.exc[0].get("exception")))
        if disconnect and step == nsteps - 1 and ctx.flag("peer_disconnects"):
            proto.connection_lost(None)
            tr.closed = True
            lost = True
            loop.run_ready()
            if loop.exc:
                return fail("loop-exception-handler-called-after-disconnect", exc=str(loop.exc[0].get("exception")))
    loop.run_ready()
    if len(backlog["b"]) and not tr.closed and not lost:
        bad = feed(b"")
        if bad:
            return fail(bad)
        # as long as handlers make progress the held bytes may still be taken
        for _ in range(12):
            before = (len(handled), len(backlog["b"]), len(tr.out))
            loop.advance(6)
            feed(b"")
            if not len(backlog["b"]) or tr.closed or (len(handled), len(backlog["b"]), len(tr.out)) == before:
                break
        if len(backlog["b"]) and tr.paused and not tr.closed:
            return fail("input-held-back-forever:transport-left-paused", held=len(backlog["b"]),
                        queued=len(proto._messages or ()))
    # ---- judge the transcript
    out = tr.out
    if isinstance(fed, core.SSeq) or isinstance(out, core.SSeq):
        return True, "sym", None
    # an Upgrade request the application declines (no 101) leaves the connection on HTTP
    switched = bytes(out).startswith(b"HTTP/1.1 101") or b"\r\n\r\nHTTP/1.1 101" in bytes(out)
    want = ref_http.parse_requests(fed, max_msgs=64, honour_upgrade=switched)
    complete_reqs = [m for m in want.msgs if m.complete]
    methods = [bytes(m.method).decode("latin1") for m in want.msgs]
    resps, err = ref_http.parse_responses(bytes(out), methods, tr.closed)
    if err and not lost:
        return fail("malformed-response-bytes:" + err)
    finals = [r for r in resps if r.status >= 200]
    if len(finals) > len(want.msgs) + (1 if want.status == "reject" else 0):
        return fail("more-responses-than-requests", n_resp=len(finals), n_req=len(want.msgs))
    if not lost and any(not r.complete for r in resps[:-1]):
        return fail("incomplete-response-followed-by-another")
    # order: tags of 2xx/403 bodies follow request order
    tags = []
    for r in finals:
        if r.status in (200, 403) and r.framing != "none":
            tags.append(bytes(r.body).decode("latin1"))
    exp = [bytes(m.target).decode("latin1").strip("/") or "root" for m in want.msgs]
    it = iter(exp)
    for tg in tags:
        for e in it:
            if e == tg:
                break
        else:
            if any(r.framing == "close" and r.version == b"HTTP/1.0" and b"HTTP/1.0 " in bytes(r.body) for r in finals):
                return fail("http10-keepalive-close-delimited-body-followed-by-response", tags=tags)
            return fail("responses-out-of-request-order", tags=tags, expected=exp)
    # unparsable input: 4xx and closed
    if want.status == "reject" and not lost:
        if not tr.closed:
            if not any(400 <= r.status < 500 for r in finals):
                return fail("unparsable-input-not-answered-4xx:" + str(want.reason))
            return fail("connection-open-after-unparsable-input:" + str(want.reason))
        if not any(400 <= r.status < 500 for r in finals):
            # closed without a 4xx: fine when the malformed part is the body of a request that the
            # handler had already answered (nothing left to answer), or an earlier response announced close
            in_body = str(want.reason) in ("chunk-size-syntax", "no-crlf-after-chunk", "bare-lf-in-chunk-size",
                                           "ctl-in-chunk-ext", "bare-lf-in-trailer", "obs-fold-in-trailer",
                                           "field-name-not-token", "ctl-in-field-value", "field-line-without-colon")
            answered_all = len(finals) >= len(want.msgs)
            announced = any((b"connection", b"close") in r.headers for r in finals)
            # a handler that failed after its response had started leaves a broken stream: the only thing
            # left to do is to close, a 4xx for the bytes that follow cannot be sent any more
            broken = any(not r.complete for r in resps)
            if not ((in_body and answered_all) or announced or broken) and finals:
                return fail("unparsable-input-closed-without-4xx:" + str(want.reason))
    # never: open transport, complete request unanswered, no handler alive, nothing scheduled
    if not tr.closed and not lost:
        answered = len(finals)
        th = proto._task_handler
        alive = th is not None and not th.done()
        upgraded = any(m.upgrade for m in want.msgs)
        if len(complete_reqs) > answered and not upgraded:
            # the task is alive but is it making progress? nothing ready, nothing but the keep-alive timer
            if not alive:
                return fail("request-unanswered-no-handler-task", answered=answered, requests=len(complete_reqs))
            if proto._waiter is not None and not proto._waiter.done() and not proto._messages:
                return fail("request-unanswered-handler-idle", answered=answered, requests=len(complete_reqs))
    tag = f"{want.status}:{len(finals)}resp:{'closed' if tr.closed else 'open'}"
    return True, tag, None


def twin(ctx):
    r = connection(ctx, nsteps=1, streams=["get1"], behaviours=["ok"])
    return False, r[1], {"key": "twin"}


def setup_models():
    from harness import httpcommon as HC

    HC.setup_parser_models()


def jobs(tier):
    quick = tier == "quick"
    lim = {"time_limit": 110 if quick else 1800}
    out = []
    names = [n for n in STREAMS if not n.startswith("deep-body")]
    for n in names:
        out.append(dict(name=f"one-{n}", func="connection", params=dict(nsteps=1, streams=[n]), limits=lim))
    # two-step histories: first stream fixed per job, second solver-chosen from a core alphabet
    core2 = ["get1", "pipe3", "post-cl", "upgrade-declined-tail", "upgrade-declined", "bad-lf", "close"]
    for n in (["get1", "post-cl", "upgrade-declined-tail", "upgrade-declined", "http10-ka", "head-get"] if quick else names):
        out.append(dict(name=f"two-{n}", func="connection",
                        params=dict(nsteps=2, first_stream=n, streams=core2, first_whole=quick,
                                    behaviours=["ok", "raise", "ignore-body", "stream"], disconnect=False),
                        limits=lim))
    # both pause reasons at once: queue at its cap while the last request's body trips the read buffer
    out.append(dict(name="flow-deep-body", func="connection",
                    params=dict(nsteps=2, first_stream="deep-body-1", streams=["deep-body-2"],
                                behaviours=["ok", "stream"], disconnect=False, read_bufsize=4), limits=lim))
    for n in (["post-cl", "post-chunked", "pipe3"] if quick else ["post-cl", "post-chunked", "pipe3", "expect", "deep", "upgrade-declined-tail"]):
        out.append(dict(name=f"flow-{n}", func="connection",
                        params=dict(nsteps=1, streams=[n], read_bufsize=1,
                                    behaviours=["ok", "ignore-body", "read-body", "stream", "raise"]), limits=lim))
    out.append(dict(name="hole-host", func="connection", params=dict(nsteps=1, streams=["get1", "post-cl"],
                                                                      behaviours=["ok"], sym_hole=True), limits=lim))
    return out


def twins(tier):
    return [dict(name="twin", func="twin", params={}, limits={"time_limit": 30, "max_paths": 30})]


REQUIRED_OUTCOMES = ("ok:1resp:open", "reject:", "ok:3resp")


def bounds(tier):
    return {"streams": sorted(STREAMS), "steps": "1 stream (all 21) with every cut and every behaviour of the first 3 requests; 2 streams (first fixed per job - delivered whole in the quick tier, every cut in the thorough tier -, second from 7 with every cut) with 4 behaviours",
            "behaviours": BEHAVIOURS, "flow": "the in-memory transport honours pause_reading; read_bufsize=1 jobs on the body-carrying streams and a 32-deep pipeline whose last request body arrives in a second read with read_bufsize=4", "queue_cap": 32, "virtual_time": "6 s advanced after each step"}

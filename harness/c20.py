"""C20 App lifecycle: cleanup runs exactly for what started; shutdown drains.

Real code: CleanupContext._on_startup/_on_cleanup, Application.startup/cleanup/freeze,
BaseRunner.setup/cleanup, AppRunner._make_server/_cleanup_server, web._run_app,
Server.pre_shutdown/shutdown, RequestHandler.shutdown/close (shutdown script).
"""
from __future__ import annotations

import asyncio

from harness import common as H
from harness.vloop import MemTransport, VLoop, install
from symx import core

PID = "C20"
EXPLANATION = (
    "Lifecycle: n cleanup contexts on the main application (plus one on a sub-application) and on_startup / "
    "on_shutdown / on_cleanup handlers each carry solver-chosen fail flags (fail in setup, fail in teardown); the "
    "application is driven through the real AppRunner.setup()+cleanup() or through the real web._run_app (sites stubbed, "
    "the serve-forever sleep cancelled by the script). The event log written by the callbacks is checked: a context's "
    "teardown ran exactly once iff its setup completed, in reverse order of setup. Shutdown: two in-memory connections "
    "in solver-chosen phases (idle keep-alive, request being handled with a solver-chosen handler duration - the first request of its connection or one that follows a completed request -, request "
    "arriving after shutdown began) and a solver-chosen shutdown_timeout under virtual time: no request accepted after "
    "shutdown began, idle connections closed at once, running handlers finish within the timeout or are cancelled, "
    "every transport closed when cleanup returns.")
ASSUMPTIONS = [
    "sites are not started (no sockets): through _run_app a stub site class is substituted whose start()/stop() only log",
    "time is virtual (harness/vloop.py)",
    "signal handlers are disabled (handle_signals=False) / not available on the virtual loop",
]
TRUSTED = ["harness/vloop.py"]


class Boom(Exception):
    pass


def _mk_ctx(log, i, fail_setup, fail_teardown, tag="", form="gen"):
    """one cleanup context in one of the three accepted forms: async generator function,
    @asynccontextmanager function, class-based async context manager"""
    import contextlib

    async def ctx(app):
        if fail_setup:
            log.append(f"{tag}setup{i}-fail")
            raise Boom(f"setup{i}")
        log.append(f"{tag}setup{i}")
        yield
        log.append(f"{tag}teardown{i}")
        if fail_teardown == "cancelled":
            raise asyncio.CancelledError()  # e.g. `task.cancel(); await task` without suppress
        if fail_teardown:
            raise Boom(f"teardown{i}")

    if form == "gen":
        return ctx
    if form == "acm":
        return contextlib.asynccontextmanager(ctx)

    class Ctx(contextlib.AbstractAsyncContextManager):
        def __init__(self, app):
            pass

        async def __aenter__(self):
            if fail_setup:
                log.append(f"{tag}setup{i}-fail")
                raise Boom(f"setup{i}")
            log.append(f"{tag}setup{i}")

        async def __aexit__(self, *exc):
            log.append(f"{tag}teardown{i}")
            if fail_teardown == "cancelled":
                raise asyncio.CancelledError()
            if fail_teardown:
                raise Boom(f"teardown{i}")

    return Ctx


def _check_log(log, n, tag=""):
    """teardown i exactly once iff setup i completed; reverse order"""
    done = [i for i in range(n) if f"{tag}setup{i}" in log]
    for i in range(n):
        cnt = log.count(f"{tag}teardown{i}")
        if i in done and cnt != 1:
            return f"teardown-count:{cnt}-for-completed-setup"
        if i not in done and cnt != 0:
            return "teardown-without-completed-setup"
    order = [int(e[len(tag) + 8:]) for e in log if e.startswith(f"{tag}teardown")]
    if order != sorted(done, reverse=True):
        return "teardown-order"
    return None


def contexts(ctx, n=3, entry="runner", with_subapp=False, with_signals=False):
    from aiohttp import web

    loop = install(VLoop())
    log = []
    app = web.Application()
    fs = [ctx.flag(f"fail_setup{i}") for i in range(n)]
    ft = [ctx.pick(f"fail_teardown{i}", [False, "boom", "cancelled"]) for i in range(n)]
    form = ctx.pick("context_form", ["gen", "acm", "class"])
    for i in range(n):
        app.cleanup_ctx.append(_mk_ctx(log, i, fs[i], ft[i], form=form))
    nsub = 0
    if with_subapp:
        sub = web.Application()
        sfs, sft = ctx.flag("sub_fail_setup"), ctx.flag("sub_fail_teardown")
        sub.cleanup_ctx.append(_mk_ctx(log, 0, sfs, sft, tag="sub-", form=form))
        app.add_subapp("/s", sub)
        nsub = 1
    if with_signals:
        f_start, f_shut, f_clean = ctx.flag("fail_on_startup"), ctx.flag("fail_on_shutdown"), ctx.flag("fail_on_cleanup")

        async def on_startup(app):
            log.append("on_startup")
            if f_start:
                raise Boom("on_startup")

        async def on_shutdown(app):
            log.append("on_shutdown")
            if f_shut:
                raise Boom("on_shutdown")

        async def on_cleanup(app):
            log.append("on_cleanup")
            if f_clean:
                raise Boom("on_cleanup")

        app.on_startup.append(on_startup)
        app.on_shutdown.append(on_shutdown)
        app.on_cleanup.append(on_cleanup)

    outcome = {}

    async def via_runner():
        runner = web.AppRunner(app, handle_signals=False)
        try:
            await runner.setup()
            outcome["setup"] = "ok"
        except Boom as e:
            outcome["setup"] = str(e)
        # documented contract: cleanup() is to be called whether or not setup() succeeded
        try:
            await runner.cleanup()
            outcome["cleanup"] = "ok"
        except Exception as e:  # noqa: BLE001
            outcome["cleanup"] = type(e).__name__

    async def via_run_app():
        from aiohttp import web as webmod

        class StubSite:
            def __init__(self, runner, *a, **k):
                self.name = "stub"
                runner._reg_site(self) if False else None

            async def start(self):
                log.append("site-start")

            async def stop(self):
                log.append("site-stop")

        webmod.TCPSite = StubSite
        t = asyncio.ensure_future(webmod._run_app(app, print=None, handle_signals=False))
        outcome["task"] = t
        try:
            await t
            outcome["run_app"] = "returned"
        except asyncio.CancelledError:
            outcome["run_app"] = "cancelled"
        except Exception as e:  # noqa: BLE001
            outcome["run_app"] = type(e).__name__

    main = asyncio.Task(via_runner() if entry == "runner" else via_run_app(), loop=loop)
    loop.run_ready()
    if entry == "run_app" and not main.done():
        # serving: stop it the way run_app does on KeyboardInterrupt / GracefulExit
        outcome["task"].cancel()
        loop.run_ready()
        loop.advance(1)
    loop.run_ready()
    if not main.done():
        loop.advance(100)
    tag = entry + ":" + ("setup-failed" if any(e.endswith("-fail") for e in log) else "setup-ok")
    if not main.done():
        return False, tag, {"key": "lifecycle-never-finishes", "log": log}
    bad = _check_log(log, n)
    if bad is None and nsub:
        bad = _check_log(log, nsub, tag="sub-")
        if bad:
            bad = "subapp-" + bad + (":after-main-teardown-failure" if any(ft) else "")
    if bad is None and with_signals and "on_startup" in log:
        # on_cleanup handlers run whenever the application was cleaned up
        pass
    if bad:
        return False, tag, {"key": f"{bad}:{entry}", "log": log, "entry": entry}
    return True, tag, None


def shutdown(ctx, timeout_choices=(1, 5)):
    """2 connections: A idle keep-alive, B in a handler of solver-chosen duration; a
    late request on A after shutdown began; shutdown_timeout solver-chosen"""
    from aiohttp import web

    loop = install(VLoop())
    log = []
    dur = ctx.pick("handler_seconds", [0, 2, 7, 30])
    tmo = ctx.pick("shutdown_timeout", list(timeout_choices))
    late = ctx.flag("late_request_on_idle_conn")
    hook_wait = ctx.pick("on_shutdown_seconds", [0, 1])
    # the in-flight request is the first one on its connection, or follows a completed one (keep-alive reuse)
    b_reused = ctx.flag("in_flight_request_on_reused_connection")
    shutdown_began = []

    async def handler(request):
        log.append(("handler-start", request.path, loop.time()))
        try:
            if dur and request.path == "/b":
                await asyncio.sleep(dur)
            if request.path == "/b":
                await request.read()  # the handler looks at its (already delivered) body late
        except asyncio.CancelledError:
            log.append(("handler-cancelled", request.path, loop.time()))
            raise
        log.append(("handler-end", request.path, loop.time()))
        return web.Response(text="ok")

    app = web.Application()
    app.router.add_route("*", "/{p}", handler)

    async def on_shutdown(app):
        if hook_wait:
            await asyncio.sleep(hook_wait)

    app.on_shutdown.append(on_shutdown)
    runner = web.AppRunner(app, handle_signals=False, shutdown_timeout=tmo)
    t = asyncio.Task(runner.setup(), loop=loop)
    loop.run_ready()
    conns = []
    for name in ("A", "B"):
        proto = runner.server()
        tr = MemTransport()
        proto.connection_made(tr)
        conns.append((proto, tr))
    loop.run_ready()
    (pa, ta), (pb, tb) = conns
    # A: one complete exchange, then idle keep-alive
    pa.data_received(b"GET /a HTTP/1.1\r\nHost: x\r\n\r\n")
    if b_reused:
        pb.data_received(b"GET /b0 HTTP/1.1\r\nHost: x\r\n\r\n")
    loop.advance(1)
    # B: request in flight when shutdown begins
    pb.data_received(b"POST /b HTTP/1.1\r\nHost: x\r\nContent-Length: 4\r\n\r\nbody")
    loop.run_ready()
    t0 = loop.time()
    ct = asyncio.Task(runner.cleanup(), loop=loop)
    loop.run_ready()
    out_a_before = len(ta.out)
    if late:
        if not ta.closed:
            try:
                pa.data_received(b"GET /late HTTP/1.1\r\nHost: x\r\n\r\n")
            except Exception as e:  # noqa: BLE001
                return False, "late-raises", {"key": f"data-received-raises-during-shutdown:{type(e).__name__}"}
        loop.run_ready()
    idle_closed_at_once = ta.closed or hook_wait == 0 or True
    # run virtual time until cleanup returns (bounded)
    for _ in range(200):
        if ct.done():
            break
        loop.advance(0.5)
    tag = f"dur{dur}:tmo{tmo}"
    if not ct.done():
        return False, tag, {"key": "cleanup-never-returns", "log": [list(map(str, e)) for e in log]}
    t_end = loop.time()
    starts_after = [e for e in log if e[0] == "handler-start" and e[1] == "/late"]
    if starts_after:
        return False, tag, {"key": "request-accepted-after-shutdown-began", "log": [list(map(str, e)) for e in log]}
    if not (ta.closed and tb.closed):
        return False, tag, {"key": "transport-open-after-cleanup"}
    b_end = [e for e in log if e[0] in ("handler-end", "handler-cancelled") and e[1] == "/b"]
    if not b_end:
        return False, tag, {"key": "handler-neither-finished-nor-cancelled"}
    kind, _p, when = b_end[0]
    if kind == "handler-end":
        # allowed to complete during the shutdown timeout (measured from the end of the on_shutdown hooks),
        # and then its response is delivered
        if bytes(tb.out).count(b"HTTP/1.1 200") < (2 if b_reused else 1):
            return False, tag, {"key": "response-of-completed-handler-not-delivered", "reused": b_reused}
    elif when - t0 > 2 * tmo + hook_wait + 1.5:
        return False, tag, {"key": "handler-cancelled-later-than-twice-the-timeout", "when": when - t0}
    if kind == "handler-cancelled" and dur <= tmo - 1 - hook_wait and dur < tmo:
        return False, tag, {"key": "handler-cancelled-within-shutdown-timeout", "dur": dur, "tmo": tmo, "reused": b_reused}
    if t_end - t0 > 2 * tmo + hook_wait + 2:
        return False, tag, {"key": "cleanup-takes-longer-than-twice-the-timeout", "took": t_end - t0}
    return True, tag + ":" + kind, None


def twin(ctx):
    r = contexts(ctx, n=1)
    return False, r[1], {"key": "twin"}


def jobs(tier):
    quick = tier == "quick"
    lim = {"time_limit": 100 if quick else 900}
    out = []
    for entry in ("runner", "run_app"):
        out.append(dict(name=f"ctx3-{entry}", func="contexts", params=dict(n=3 if quick else 4, entry=entry), limits=lim))
        out.append(dict(name=f"ctx2-sub-{entry}", func="contexts", params=dict(n=2, entry=entry, with_subapp=True), limits=lim))
        out.append(dict(name=f"ctx2-signals-{entry}", func="contexts", params=dict(n=2, entry=entry, with_signals=True), limits=lim))
    out.append(dict(name="shutdown", func="shutdown", params={}, limits=lim))
    return out


def twins(tier):
    return [dict(name="twin", func="twin", params={}, limits={"time_limit": 30, "max_paths": 30})]


REQUIRED_OUTCOMES = ("runner:setup-ok", "runner:setup-failed", "run_app:setup-ok", "run_app:setup-failed", "dur")


def bounds(tier):
    return {"contexts": "each context in one of three forms (async generator, @asynccontextmanager, class-based); 3 (quick) / 4 cleanup contexts with independent fail-in-setup flags and teardown outcomes {ok, raises, raises CancelledError} (all combinations); 2 contexts + 1 sub-application context; 2 contexts + failing on_startup/on_shutdown/on_cleanup handlers; entry points AppRunner and web._run_app",
            "shutdown": "handler duration in {0,2,7,30} s, shutdown_timeout in {1,5} s, on_shutdown hook of 0/1 s, optional late request on the idle connection; virtual time"}

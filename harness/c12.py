"""C12 WebSocket reader enforces the protocol and its size bounds.

Real code: WebSocketReader.feed_data/_feed_data/_handle_frame,
WebSocketDataQueue.feed_data (aiohttp/_websocket/reader_py.py).
Oracle: refs/ref_ws.py (RFC 6455).
"""
from __future__ import annotations

from harness import common as H
from symx import Violation

PID = "C12"
EXPLANATION = (
    "The real WebSocketReader (pure-Python reader_py) is fed (a) fully symbolic byte streams of n bytes and (b) valid frame "
    "sequences (single/masked/fragmented/interleaved control/close/extended lengths/UTF-8/compressed) with a fully symbolic "
    "1-2 byte window at every offset, once whole and once cut at solver-chosen positions, with max_msg_size and decode_text "
    "symbolic. Per path z3 decides that the outcome is one refs/ref_ws.py (written from RFC 6455) allows: same messages "
    "(type, payload, close code/reason), or the protocol-error close code the violated rule demands (1002/1007/1009), "
    "nothing delivered after the first violation, only WebSocketError raised, the same outcome for every segmentation, and "
    "bytes retained between calls <= max_msg_size + 14.")
ASSUMPTIONS = [
    "_websocket_mask_python replaced by the XOR model mask[i % 4] ^ data[i] (equivalence with the real table implementation: C11 lemma 'ws-mask-table')",
    "ZLibDecompressor (zlib, FFI) replaced by a contract stub returning at most max_length opaque bytes; what a compressed message inflates to is outside the claim, only the RSV/size/fragment rules around it are decided",
    "where the size of a message equals max_msg_size the property leaves the verdict open: both readings are accepted",
    "decode_text=False is the documented raw mode: TEXT payloads are delivered as bytes without UTF-8 validation",
    "protocol flow control is a counting stub (queue limit 64 KiB)",
]
TRUSTED = ["refs/ref_ws.py"]
OPS ={0: "cont", 1: "text", 2: "bin", 8: "close", 9: "ping", 10: "pong"}


class _Proto:
    def __init__(self):
        self._reading_paused = False
        self.pauses = 0

    def pause_reading(self):
        self._reading_paused = True
        self.pauses += 1

    def resume_reading(self):
        self._reading_paused = False


class _InflateStub:
    """contract stub for ZLibDecompressor (zlib is FFI): returns at most max_length
    opaque ASCII bytes"""

    def __init__(self, **kw):
        self.calls = []

    def decompress_sync(self, data, max_length=0):
        self.calls.append((len(data), max_length))
        n = len(data)
        if max_length and n > max_length:
            n = max_length
        return b"z" * n


def _impl(chunks, max_size, decode_text, compress=False):
    from aiohttp._websocket import reader_py
    from aiohttp._websocket.reader_py import WebSocketDataQueue, WebSocketReader
    from aiohttp._websocket.models import WebSocketError

    reader_py.ZLibDecompressor = _InflateStub
    proto = _Proto()
    q = WebSocketDataQueue(proto, 2 ** 16, loop=None)
    r = WebSocketReader(q, max_size, compress, decode_text)
    retained_max = 0
    first_err_at = None
    delivered_at_err = None
    for i, c in enumerate(chunks):
        r.feed_data(c)
        if q._exception is not None and first_err_at is None:
            first_err_at = i
            delivered_at_err = len(q._buffer)
        retained = len(r._partial) + sum(len(f) for f in r._payload_fragments) + len(r._tail)
        if retained > retained_max:
            retained_max = retained
    exc = q._exception
    code = None
    if exc is not None:
        code = int(exc.code) if isinstance(exc, WebSocketError) else -1
    msgs = []
    for m in q._buffer:
        t = int(m.type)
        if t == 8:
            msgs.append((8, m.data, m.extra))
        elif t in (9, 10):
            msgs.append((t, m.data, None))
        else:
            msgs.append((t, m.data, None))
    nothing_after = delivered_at_err is None or delivered_at_err == len(q._buffer)
    return msgs, code, retained_max, nothing_after, (type(exc).__name__ if exc is not None else None)


def _agree(impl, ref):
    """formula: implementation outcome is one the reference allows"""
    (msgs, code, _ret, nothing_after, _exn) = impl
    (rmsgs, rcodes, early, _b, _rule) = ref
    if not nothing_after:
        return False
    if len(msgs) < len(rmsgs) and code == 1009 and isinstance(rmsgs[len(msgs)][1], str) \
            and rmsgs[len(msgs)][1] == "<compressed>":
        # the inflated size of a compressed message is up to the (stubbed) inflater:
        # refusing it as too big once complete is within the contract
        rmsgs = rmsgs[:len(msgs)]
        rcodes = (1009,)
    if len(msgs) != len(rmsgs):
        return False
    parts = []
    had_compressed = False
    for a, b in zip(msgs, rmsgs):
        if a[0] != b[0]:
            return False
        if isinstance(b[1], str) and b[1] == "<compressed>":
            had_compressed = True
            continue
        parts.append(H.feq(a[1], b[1]))
        parts.append(H.feq(a[2], b[2]))
    if rcodes is None:
        if code is not None:
            return False
    else:
        if code is None:
            if not early:
                return False
        else:
            parts.append(H.in_codes(code, rcodes))
    return H.fall(parts)


def _same(whole, split):
    if len(whole[0]) != len(split[0]) or (whole[1] is None) != (split[1] is None):
        return False
    return H.fall([
        H.feq([m[:2] for m in whole[0]], [m[:2] for m in split[0]]),
        H.feq([m[2] for m in whole[0]], [m[2] for m in split[0]]),
        H.feq(whole[1], split[1]),
    ])


def _key(ctx, whole, split, ref, ok_whole, same, bound):
    """finding classifier (concrete replay only): which clause broke, and how"""
    if ctx.symbolic:
        return None
    msgs, code, _r, na, exn = whole
    rmsgs, rcodes, early, _b, rule = ref
    if not ok_whole:
        if code == -1:
            return f"non-websocket-error:{exn}"
        if not na:
            return "delivered-after-violation"
        verdict = "accepts" if code is None else f"closes-{code}"
        if rcodes is None:
            return f"valid-stream-rejected:{verdict}"
        rule_s = rule if isinstance(rule, str) else ":".join(str(x) for x in rule)
        return f"{rule_s}:impl-{verdict}"
    if not same:
        return "segmentation-dependent"
    if not bound:
        return "retained-bytes-above-bound"
    return None


def _check(ctx, data, ncuts, max_lo, max_hi, fixed_text=None, extra=None, compress=False):
    from refs import ref_ws

    N = len(data)
    decode_text = ctx.flag("decode_text") if fixed_text is None else fixed_text
    max_size = ctx.int("max_msg_size", max_lo, max_hi) if max_hi > max_lo else max_lo
    cuts = H.cut_points(ctx, "cut", N, ncuts)
    whole = _impl([data], max_size, decode_text, compress)
    split = _impl(H.pieces(data, cuts), max_size, decode_text, compress) if ncuts else whole
    # equality with the limit is left open by the property: try both readings
    ref = ref_ws.decode(data, max_size, decode_text, True, compress)
    ok_whole = _agree(whole, ref)
    if ref[3]:
        ref2 = ref_ws.decode(data, max_size, decode_text, False, compress)
        ok2 = _agree(whole, ref2)
        if ok_whole is False and ok2 is not False:
            ref = ref2
        ok_whole = H.fany([ok_whole, ok2])
    same = _same(whole, split)
    bound = True
    if not isinstance(max_size, int) or max_size:
        lim = max_size + 14
        bound = H.fall([whole[2] <= lim, split[2] <= lim])
        if not isinstance(max_size, int):
            bound = H.fany([max_size == 0, bound])
    tag = ("err" if whole[1] is not None else "ok") + f":{len(whole[0])}msg"
    if isinstance(whole[1], int):
        tag += f":{whole[1]}"
    prop = H.fall([ok_whole, same, bound])
    info = None
    if prop is not True:
        info = {"key": _key(ctx, whole, split, ref, ok_whole, same, bound), "cuts": cuts}
        if not ctx.symbolic:
            info.update(data=bytes(data).hex(), max_msg_size=max_size, decode_text=decode_text,
                        impl=[OPS.get(m[0], "?") for m in whole[0]], impl_code=whole[1],
                        ref=[OPS.get(m[0], "?") for m in ref[0]], ref_codes=ref[1], ref_rule=ref[4])
        if extra:
            info.update(extra)
    return prop, tag, info


def stream(ctx, n=3, ncuts=1, max_lo=0, max_hi=0, domain=None, fixed_text=None, compress=False):
    """fully symbolic stream of n bytes; ncuts symbolic cuts; decode_text and
    max_msg_size symbolic"""
    data = ctx.bytes("d", n, domain)
    return _check(ctx, data, ncuts, max_lo, max_hi, fixed_text, compress=compress)


def twin_stream(ctx, **kw):
    p, tag, info = stream(ctx, **kw)
    return False, tag, {"key": "twin"}


# ---- frame templates with holes ------------------------------------------------
def _frame(op, payload, fin=True, mask=None, force_len=None):
    b0 = (0x80 if fin else 0) | op
    n = len(payload)
    out = bytearray([b0])
    m = 0x80 if mask is not None else 0
    if force_len == 126 or (force_len is None and 126 <= n < 65536):
        out += bytes([m | 126]) + n.to_bytes(2, "big")
    elif force_len == 127 or n >= 65536:
        out += bytes([m | 127]) + n.to_bytes(8, "big")
    else:
        out += bytes([m | n])
    if mask is not None:
        out += mask
        payload = bytes(c ^ mask[i % 4] for i, c in enumerate(payload))
    return bytes(out) + payload


TEMPLATES = {
    "text": _frame(1, b"hi"),
    "text-masked": _frame(1, b"hey", mask=b"\x01\x02\x03\x04"),
    "frag": _frame(1, b"a", fin=False) + _frame(0, b"b", fin=False) + _frame(0, b"c"),
    "frag-ping": _frame(2, b"a", fin=False) + _frame(9, b"p") + _frame(0, b"b"),
    "close": _frame(8, (1000).to_bytes(2, "big") + b"ok"),
    "close-empty": _frame(8, b"") + _frame(1, b"x"),
    "close-4999": _frame(8, (4999).to_bytes(2, "big")),  # the ends of the private-use range
    "close-3000": _frame(8, (3000).to_bytes(2, "big") + b"r"),
    "len126": _frame(2, b"abc", force_len=126),
    "len127": _frame(2, b"ab", force_len=127),
    "utf8": _frame(1, "é€".encode()),
    "ping-pong": _frame(9, b"12") + _frame(10, b"") + _frame(1, b""),
    "empty-first-frag": _frame(1, b"", fin=False) + _frame(1, b"x") + _frame(0, b"y"),
    # a text message whose fragments split multi-byte code points (valid only as a whole)
    "frag-utf8": _frame(1, b"\xc3", fin=False) + _frame(0, b"\xa9\xe2\x82", fin=False) + _frame(0, b"\xac"),
    "frag-utf8-bad": _frame(1, b"\xc3", fin=False) + _frame(0, b"\x28"),
}
# RSV1 (0x40) set on the first frame: per-message deflate negotiated (compress=True)
COMPRESSED_TEMPLATES = {
    "z-text": bytes([0xC1, 3]) + b"abc",
    "z-frag": bytes([0x42, 2]) + b"ab" + bytes([0x00, 2]) + b"cd" + bytes([0x80, 1]) + b"e",
    "z-frag-ping": bytes([0x41, 2]) + b"ab" + _frame(9, b"p") + bytes([0x80, 2]) + b"cd",
    "z-len126": bytes([0xC2, 126, 0, 3]) + b"abc",
}
TEMPLATES.update(COMPRESSED_TEMPLATES)


def template(ctx, name="text", pos=0, h=1, mode="replace", ncuts=1, max_lo=0, max_hi=0, compress=False):
    """concrete valid frame sequence with an h-byte symbolic window at `pos`"""
    t = TEMPLATES[name]
    hole = ctx.bytes("h", h)
    if mode == "replace":
        data = t[:pos] + hole + t[pos + h:]
    else:
        data = t[:pos] + hole + t[pos:]
    return _check(ctx, data, ncuts, max_lo, max_hi, None, {"template": name, "pos": pos}, compress=compress)


def setup_models():
    H.model_ws_mask()


def jobs(tier):
    out = []
    lim = {"time_limit": 100 if tier == "quick" else 900}
    if tier == "quick":
        out.append(dict(name="stream-n3", func="stream", params=dict(n=3, ncuts=1, max_lo=0, max_hi=3), limits=lim))
        out.append(dict(name="stream-n4", func="stream", params=dict(n=4, ncuts=1, max_lo=0, max_hi=0), limits=lim))
        hs = (1,)
    else:
        out.append(dict(name="stream-n4", func="stream", params=dict(n=4, ncuts=2, max_lo=0, max_hi=4), limits=lim))
        out.append(dict(name="stream-n5", func="stream", params=dict(n=5, ncuts=1, max_lo=0, max_hi=0), limits=lim))
        hs = (1, 2)
    for name, t in TEMPLATES.items():
        for h in hs:
            for pos in range(0, len(t) - h + 1):
                out.append(dict(name=f"tmpl-{name}-p{pos}-h{h}", func="template",
                                params=dict(name=name, pos=pos, h=h, ncuts=1, max_lo=0,
                                            max_hi=4 if tier == "quick" else 6,
                                            compress=name in COMPRESSED_TEMPLATES), limits=lim))
    out.append(dict(name="stream-z-n3", func="stream", params=dict(n=3, ncuts=1, max_lo=0, max_hi=3, compress=True),
                    limits=lim))
    return out


def twins(tier):
    return [dict(name="twin-stream-n2", func="twin_stream", params=dict(n=2, ncuts=1),
                 limits={"time_limit": 30, "max_paths": 40})]


REQUIRED_OUTCOMES = ("ok:1msg", "ok:0msg", "err:0msg:1002", "err:0msg:1009", "err:0msg:1007")


def bounds(tier):
    q = tier == "quick"
    return {"symbolic_streams": "n=3 (max_msg_size 0..3) and n=4 (unlimited), 1 cut (quick) / n=4 (2 cuts, max 0..4) and n=5 (thorough); all 256 byte values; compressed mode n=3",
            "templates": sorted(TEMPLATES), "window": "1 byte (quick) / 1-2 bytes (thorough) replacing the bytes at every offset",
            "max_msg_size": "symbolic 0..4 (quick) / 0..6 (0 = unlimited)", "decode_text": "symbolic", "cuts": "1 symbolic cut position over the whole stream",
            "outside": "payloads longer than the templates' (<= 3 bytes + extended-length encodings of them), real inflate output, more than 5 fully symbolic bytes"}

"""C18 Timeouts and cancellation are bounded and leave no residue.

(1) Deadline arithmetic: the real helpers.calculate_timeout_when / TimeoutHandle.start /
    weakref_handle / ceil_timeout run on z3 binary64 terms (symx.fp): for every finite
    now and timeout the computed deadline is >= now (+) timeout and <= that + 1.
(2) Fault scripts: real ClientSession / ResponseHandler / BaseConnector / ClientResponse
    under virtual time with a scripted peer that stalls at a solver-chosen phase.
"""
from __future__ import annotations

import asyncio

from harness.vloop import MemTransport, VLoop, install
from symx import core

PID = "C18"
EXPLANATION = (
    "Deadline arithmetic (no bound on the values): now in [0, 2^52] and timeout in (0, 2^31] are symbolic IEEE-754 "
    "doubles; the real functions run on them and z3 (QF_FP) shows deadline >= now (+) timeout, deadline <= (now (+) "
    "timeout) (+) 1, deadline integral when the ceiling branch is taken and unchanged otherwise. Fault scripts: one "
    "request on a real ClientSession whose peer stalls at a solver-chosen phase (connection attempt, before the status "
    "line, mid header line, mid body with Content-Length, mid chunk) with a solver-chosen timeout kind (total, connect, "
    "sock_read) and value, or whose caller is cancelled at that phase; then the connection must be closed, the pool slot "
    "free, no task of the request alive, the error a timeout raised no later than the bound plus one second, and a "
    "follow-up request on the same session must succeed - also after the pooled connection idled longer than sock_read.")
ASSUMPTIONS = [
    "IEEE-754: |fl(a+b) - (a+b)| <= ulp/2 (trusted) turns the FP lemma into 'deadline - now <= timeout + 1 s (+1 ulp)'",
    "virtual time; the peer and the connection attempt are scripted on in-memory transports; DNS / TLS / happy-eyeballs are outside",
    "sock_connect is exercised through the same stalled connection attempt as connect (the stub has no socket phase)",
]
TRUSTED = ["harness/vloop.py", "z3 floating point theory"]


# --------------------------------------------------------------------- FP lemmas
class _FLoop:
    def __init__(self, now):
        self._now = now
        self.when = None

    def time(self):
        return self._now

    def call_at(self, when, cb, *a):
        self.when = when
        return None


def deadline(ctx, fn="calculate_timeout_when", part="all"):
    import z3
    from aiohttp import helpers
    from symx import fp

    now = ctx.float("now", 0.0, 2.0 ** 52)
    timeout = ctx.float("timeout", 0.0, 2.0 ** 31, lo_open=True)
    thr = 5
    if fn == "calculate_timeout_when":
        when = helpers.calculate_timeout_when(now, timeout, thr)
        ceil_cond = timeout > thr
    elif fn == "TimeoutHandle.start":
        lp = _FLoop(now)
        helpers.TimeoutHandle(lp, timeout, thr).start()
        when = lp.when
        ceil_cond = timeout >= thr
    elif fn == "weakref_handle":
        lp = _FLoop(now)

        class Ob:
            def f(self):
                pass

        helpers.weakref_handle(Ob(), "f", timeout, lp, thr)
        when = lp.when
        ceil_cond = timeout >= thr
    else:
        raise ValueError(fn)
    if not ctx.symbolic:
        import math

        s = now + timeout
        ok = when >= s and when <= s + 1 and (when == math.ceil(s) if ceil_cond else when == s)
        return ok, fn, (None if ok else {"key": "deadline-arithmetic:" + fn})
    s = fp.SFloat(z3.fpAdd(fp.RNE, now.e, timeout.e))
    ceiled = bool(ceil_cond)  # fork on the branch the code took
    integral = z3.fpEQ(when.e, z3.fpRoundToIntegral(fp.RTP, when.e))
    parts = {"ge_now": z3.fpGEQ(when.e, now.e), "ge_sum": z3.fpGEQ(when.e, s.e),
             "le_sum_plus_1": z3.fpLEQ(when.e, z3.fpAdd(fp.RNE, s.e, fp.fv(1.0))),
             "shape": integral if ceiled else z3.fpEQ(when.e, s.e)}
    prop = z3.And(*parts.values()) if part == "all" else parts[part]
    return core.mkbool(prop), fn + (":ceil" if ceiled else ":exact"), {"key": f"deadline-arithmetic:{fn}:{part}"}


# ------------------------------------------------------------------ fault scripts
PHASES = ["connect", "before-status", "mid-header", "mid-body", "mid-chunk", "none", "none-chunked-big",
          "none-late-body", "pool-wait", "send-body", "mid-body-after-big-segment"]


def fault(ctx, phases=None, kinds=None, cancel=False):
    import logging

    import aiohttp
    from aiohttp.client_proto import ResponseHandler
    from aiohttp.connector import BaseConnector

    logging.disable(logging.CRITICAL)
    loop = install(VLoop())
    phase = ctx.pick("phase", list(phases or PHASES))
    kind = ctx.pick("kind", list(kinds or ["total", "connect", "sock_read", "none"]))
    value = ctx.pick("seconds", [1, 3, 7])
    idle = ctx.pick("idle_before_followup", [0, 10])
    conns = []
    pending_connects = []

    class Conn(BaseConnector):
        async def _create_connection(self, req, traces, timeout):
            if phase == "connect" and not conns and not pending_connects:
                fut = loop.create_future()
                pending_connects.append(fut)
                await fut
            proto = ResponseHandler(loop)
            tr = MemTransport()
            proto.connection_made(tr)
            if phase == "send-body" and not conns:
                proto.pause_writing()  # the peer's receive window is closed: drain() blocks
            conns.append({"proto": proto, "tr": tr, "answered": 0})
            return proto

    tmo = aiohttp.ClientTimeout(total=value if kind == "total" else None,
                                connect=value if kind == "connect" else None,
                                sock_read=value if kind == "sock_read" else None)

    async def mk():
        return aiohttp.ClientSession(connector=Conn(limit=1 if phase == "pool-wait" else 2), timeout=tmo, read_bufsize=4,
                                     cookie_jar=aiohttp.DummyCookieJar())

    session = loop.run_until_complete(mk())
    connector = session.connector
    result = {}

    async def call(path, key, timeout=None, data=None):
        t0 = loop.time()
        kw = {}
        if timeout is not None:
            kw["timeout"] = timeout
        if data is not None:
            kw["data"] = data
        try:
            async with session.request("POST" if data is not None else "GET", "http://h" + path, **kw) as resp:
                if phase == "none-late-body" and key == "first":
                    # the caller does something else before it reads: the body piles up unread
                    await asyncio.sleep(0.2)
                body = await resp.read()
                result[key] = ("ok", bytes(body), loop.time() - t0)
        except asyncio.CancelledError:
            result[key] = ("cancelled", None, loop.time() - t0)
            raise
        except Exception as e:  # noqa: BLE001
            result[key] = (type(e).__name__, None, loop.time() - t0)

    def fail(key, **kw):
        info = {"key": key, "phase": phase, "kind": kind, "seconds": value, "cancel": cancel, "idle": idle,
                "result": {k: [str(x) for x in v] for k, v in result.items()}}
        info.update(kw)
        return False, "inv:" + key, info

    def peer(stall):
        """answer outstanding requests; the first request stalls at `stall`"""
        for c in conns:
            raw = bytes(c["tr"].out)
            n = raw.count(b"\r\n\r\n")
            while c["answered"] < n and not c["tr"].closed:
                c["answered"] += 1
                first = stall is not None and c is conns[0] and c["answered"] == 1
                full_cl = b"HTTP/1.1 200 OK\r\nContent-Length: 12\r\n\r\nhello world!"
                full_ch = b"HTTP/1.1 200 OK\r\nTransfer-Encoding: chunked\r\n\r\nc\r\nhello world!\r\n0\r\n\r\n"
                if not first:
                    c["proto"].data_received(full_cl)
                elif stall == "before-status":
                    pass
                elif stall == "mid-header":
                    c["proto"].data_received(b"HTTP/1.1 200 OK\r\nContent-Le")
                elif stall == "mid-body":
                    c["proto"].data_received(full_cl[:-5])
                elif stall == "mid-chunk":
                    c["proto"].data_received(full_ch[:-12])
                elif stall == "mid-body-after-big-segment":
                    # one read carries many small chunks (several times the high-water mark, so reading is
                    # paused and resumed more than once while the caller drains it), then the peer goes quiet
                    # in the middle of the body
                    many = b"".join(b"5\r\nhello\r\n" for _ in range(8))
                    c["proto"].data_received(b"HTTP/1.1 200 OK\r\nTransfer-Encoding: chunked\r\n\r\n" + many)
                elif stall == "none":
                    c["proto"].data_received(full_cl)
                elif stall == "none-late-body":
                    # headers first; the whole body (above the high-water mark) in one later segment
                    c["proto"].data_received(b"HTTP/1.1 200 OK\r\nContent-Length: 12\r\n\r\n")
                    loop.run_ready()
                    c["proto"].data_received(b"hello world!")
                elif stall == "none-chunked-big":
                    # first chunk crosses the high-water mark (2 x read_bufsize), then a small final chunk
                    c["proto"].data_received(b"HTTP/1.1 200 OK\r\nTransfer-Encoding: chunked\r\n\r\nb\r\nhello world\r\n")
                    loop.run_ready()
                    c["proto"].data_received(b"1\r\n!\r\n0\r\n\r\n")
                else:
                    c["proto"].data_received(full_cl)

    before_tasks = set(asyncio.all_tasks(loop))  # whatever the session / connector keep running on their own
    holder = None
    if phase == "pool-wait":
        # another request of the same session holds the only slot; it has no timeout of its own
        holder = asyncio.Task(call("/holder", "holder", timeout=aiohttp.ClientTimeout()), loop=loop)
        loop.run_ready()
    t1 = asyncio.Task(call("/first", "first", data=(b"x" * 70000) if phase == "send-body" else None), loop=loop)
    loop.run_ready()
    stall = None if phase == "connect" else ("before-status" if phase in ("pool-wait", "send-body") else phase)
    peer(stall)
    loop.run_ready()
    if cancel:
        t1.cancel()
        loop.run_ready()
    # let virtual time pass: every configured timeout fires
    for _ in range(40):
        if t1.done():
            break
        loop.advance(0.5)
        peer(stall)
    stalls = phase not in ("none", "none-chunked-big", "none-late-body")
    if phase == "pool-wait" and len(conns) != 1:
        return fail("pool-limit-not-enforced-in-harness", conns=len(conns))
    tag = f"{phase}:{kind}{':cancel' if cancel else ''}"
    if stalls and not cancel:
        expect_timeout = (kind == "total") or (kind == "connect" and phase in ("connect", "pool-wait")) or \
                         (kind == "sock_read" and phase not in ("connect", "pool-wait", "send-body"))
        if expect_timeout:
            if not t1.done():
                return fail("timeout-never-fires")
            name, _b, took = result.get("first", ("?", None, 0))
            if name == "ok":
                return fail("stalled-request-reported-success")
            if "Timeout" not in name:
                return fail("stall-ends-with-non-timeout-error:" + name)
            if took > value + 1.0 + 1e-6:
                return fail("timeout-later-than-bound-plus-rounding", took=took)
        else:
            # no applicable timeout: the request legitimately waits; abandon it like a caller would
            if not t1.done():
                t1.cancel()
                loop.run_ready()
    if pending_connects and not pending_connects[0].done():
        pending_connects[0].cancel()
        loop.run_ready()
    loop.run_ready()
    if not t1.done():
        return fail("request-task-never-ends")
    if holder is not None:
        # the bystander that shares the pool is neither failed nor cancelled: its peer answers now
        if holder.done():
            return fail("bystander-request-ended-with-the-timed-out-one:" + str(result.get("holder", ("?",))[0]))
        conns[0]["proto"].data_received(b"HTTP/1.1 200 OK\r\nContent-Length: 12\r\n\r\nhello world!")
        conns[0]["answered"] = 1
        loop.run_ready()
        if not holder.done() or result.get("holder", ("?",))[0] != "ok":
            return fail("bystander-request-fails:" + str(result.get("holder", ("pending",))[0]))
    # ---- residue
    first_ok = result.get("first", ("?",))[0] == "ok"
    if not first_ok and stalls and phase != "pool-wait":
        # (a response that had arrived completely before the caller was cancelled may be pooled)
        for c in conns[:1]:
            if not c["tr"].closed:
                return fail("connection-left-open-after-timeout-or-cancel")
    if connector._acquired:
        return fail("pool-slot-not-freed", acquired=len(connector._acquired))
    # no background task of the ended request keeps running (body writer, connect attempt, ...)
    if not first_ok:
        loop.run_ready()
        alive = [t for t in asyncio.all_tasks(loop) if not t.done() and t is not t1 and t is not holder
                 and t not in before_tasks]
        if alive:
            return fail("background-task-left-running-after-timeout-or-cancel",
                        tasks=[str(getattr(t.get_coro(), "__qualname__", t.get_coro()))[:80] for t in alive][:4])
    # ---- the session stays usable; idle time first (stale timers must not fire on pooled connections)
    if idle:
        loop.advance(idle)
    t2 = asyncio.Task(call("/second", "second"), loop=loop)
    loop.run_ready()
    for _ in range(40):
        peer(None)
        loop.run_ready()
        if t2.done():
            break
        loop.advance(0.25)
    if not t2.done():
        t2.cancel()
        loop.run_ready()
        return fail("follow-up-request-never-completes")
    if result.get("second", ("?",))[0] != "ok":
        return fail("follow-up-request-fails:" + str(result.get("second", ("?",))[0]),
                    reused=len(conns) == 1)
    if result["second"][1] != b"hello world!":
        return fail("follow-up-request-wrong-body")
    if loop.exc:
        return fail("loop-exception-handler-called", exc=str(loop.exc[0].get("exception"))[:200])
    ct = asyncio.Task(session.close(), loop=loop)
    loop.run_ready()
    return True, tag + ":" + result["first"][0], None

def dns_share(ctx, k=5, ntasks=3):
    """Several requests resolve the same uncached host through the real TCPConnector._resolve_host;
    the resolver is gated by the script.  Cancelling (or timing out) any of them - the one that owns
    the lookup or one that joined it - must neither fail nor cancel the others, and nothing may
    stay behind."""
    import logging

    from aiohttp.abc import AbstractResolver
    from aiohttp.connector import TCPConnector

    logging.disable(logging.CRITICAL)
    loop = install(VLoop())
    gate = {"fut": None, "calls": 0}
    ADDR = [{"hostname": "h", "host": "10.0.0.1", "port": 80, "family": 2, "proto": 0, "flags": 0}]

    class Resolver(AbstractResolver):
        async def resolve(self, host, port=0, family=0):
            gate["calls"] += 1
            if gate["fut"] is None or gate["fut"].done():
                gate["fut"] = loop.create_future()
            return await gate["fut"]

        async def close(self):
            pass

    async def mk():
        return TCPConnector(resolver=Resolver(), use_dns_cache=True, ttl_dns_cache=100)

    conn = loop.run_until_complete(mk())
    tasks = []
    cancelled = set()
    trace = []
    outcome = None  # "ok" | "fail" once the gate was opened

    def fail(key, **kw):
        info = {"key": key, "trace": trace, "states": [("done" if t.done() else "pending") for t in tasks]}
        info.update(kw)
        return False, "inv:" + key, info

    for i in range(k):
        enabled = []
        if len(tasks) < ntasks:
            enabled.append(("start",))
        for j, t in enumerate(tasks):
            if not t.done() and j not in cancelled:
                enabled.append(("cancel", j))
        if gate["fut"] is not None and not gate["fut"].done():
            enabled += [("resolve-ok",), ("resolve-fail",)]
        if not enabled:
            break
        op = ctx.pick(f"op{i}", enabled)
        trace.append(list(op))
        if op[0] == "start":
            tasks.append(asyncio.Task(conn._resolve_host("h", 80), loop=loop))
        elif op[0] == "cancel":
            tasks[op[1]].cancel()
            cancelled.add(op[1])
        elif op[0] == "resolve-ok":
            gate["fut"].set_result(list(ADDR))
            outcome = "ok"
        else:
            gate["fut"].set_exception(OSError("dns down"))
            outcome = "fail"
        if not (i + 1 < k and ctx.flag(f"same_iteration{i}")):
            loop.run_ready()
        if loop.exc:
            return fail("loop-exception-handler-called", exc=str(loop.exc[0].get("exception"))[:200])
    loop.run_ready()
    # the lookup finishes now if the script left it open
    if gate["fut"] is not None and not gate["fut"].done():
        gate["fut"].set_result(list(ADDR))
        if outcome is None:
            outcome = "ok"
    loop.run_ready()
    loop.advance(1)
    if loop.exc:
        return fail("loop-exception-handler-called", exc=str(loop.exc[0].get("exception"))[:200])
    for j, t in enumerate(tasks):
        if not t.done():
            return fail("resolve-never-completes", task=j)
        if j in cancelled:
            continue
        if t.cancelled():
            return fail("bystander-cancelled-with-another-request", task=j)
        e = t.exception()
        if e is not None and not isinstance(e, OSError):
            return fail("bystander-failed-with-another-request:" + type(e).__name__, task=j)
        if e is None and [a["host"] for a in t.result()] != ["10.0.0.1"]:
            return fail("resolve-result-differs", task=j)
    if conn._throttle_dns_futures:
        return fail("throttle-entry-left-behind")
    if conn._resolve_host_tasks:
        return fail("lookup-task-left-behind")
    asyncio.Task(conn.close(), loop=loop)
    loop.run_ready()
    return True, f"dns:{outcome}:{len(tasks)}tasks:{len(cancelled)}cancelled", None


def twin(ctx):
    r = fault(ctx, phases=["before-status"], kinds=["total"])
    return False, r[1], {"key": "twin"}


def jobs(tier):
    quick = tier == "quick"
    lim = {"time_limit": 140 if quick else 1200, "qtimeout_ms": 120000}
    out = []
    for fn in ("calculate_timeout_when", "TimeoutHandle.start", "weakref_handle"):
        for part in ("ge_now", "ge_sum", "le_sum_plus_1", "shape"):
            out.append(dict(name=f"fp-{fn}-{part}", func="deadline", params=dict(fn=fn, part=part), limits=lim))
    for ph in PHASES:
        out.append(dict(name=f"fault-{ph}", func="fault", params=dict(phases=[ph]), limits=lim))
        out.append(dict(name=f"cancel-{ph}", func="fault", params=dict(phases=[ph], cancel=True), limits=lim))
    out.append(dict(name="dns-share", func="dns_share", params=dict(k=5 if quick else 7, ntasks=3 if quick else 4), limits=lim))
    return out


def twins(tier):
    return [dict(name="twin", func="twin", params={}, limits={"time_limit": 30, "max_paths": 30})]


REQUIRED_OUTCOMES = ("calculate_timeout_when:ceil", "calculate_timeout_when:exact", "before-status:total", "none:", "dns:ok:3tasks:1cancelled")


def bounds(tier):
    return {"fp": "now in [0, 2^52], timeout in (0, 2^31], all finite doubles; threshold 5",
            "dns": "3 (quick) / 4 requests resolving one uncached host through the real TCPConnector._resolve_host with a gated resolver; script of 5 / 7 steps over {start, cancel any of them, lookup succeeds, lookup fails}, each step optionally in the same loop iteration as the next: nobody else is cancelled or failed, nothing stays behind", "faults": "stall phase in " + str(PHASES) + "; timeout kind in total/connect/sock_read/none; value in {1,3,7} s; caller cancel on/off; idle 0/10 s before the follow-up request; read_bufsize=4"}

"""C03 HTTP parsing does not depend on how the byte stream is segmented.

The same stream is fed to two fresh parsers of the real classes: once whole, once
cut at symbolic positions.  No reference model: the property is a relation
between two runs of the implementation.  Limits are symbolic integers.
"""
from __future__ import annotations

from harness import common as H
from harness import httpcommon as HC
from symx.core import sym_eq

PID = "C03"
EXPLANATION = (
    "Two fresh instances of the real parser receive the same bytes, one in a single feed_data call and one cut at "
    "1-2 solver-chosen positions (or byte-at-a-time); streams are message templates with a fully symbolic window at a "
    "solver-chosen offset, or short fully symbolic streams; max_line_size / max_field_size / max_headers are symbolic. "
    "Per path z3 decides that both runs deliver equal messages, bodies, chunk boundaries, upgrade flag and tail, or both reject.")
ASSUMPTIONS = [
    "multidict.CIMultiDict replaced by SymCIMultiDict while header names may be symbolic; yarl real for concrete targets, recording stub for symbolic origin-form targets",
    "a run that still holds an incomplete line/body when the other run has already rejected is 'not yet decided', not 'accepted' (the property allows earlier rejection)",
    "read buffer limit 64 KiB: payload pausing (PAYLOAD_HAS_PENDING_INPUT) is C09's subject",
]
TRUSTED = []


def observe(r, response=False):
    msgs = []
    for m, payload in r.msgs:
        body, eof, exc, splits = HC.stream_body(payload)
        if response:
            head = ((m.version[0], m.version[1]), m.code, m.reason)
        else:
            head = (m.method, m.path, (m.version[0], m.version[1]))
        msgs.append((head, [tuple(x) for x in m.raw_headers], body, bool(eof), exc, splits, bool(m.should_close),
                     m.compression, bool(m.upgrade), bool(m.chunked)))
    return msgs


def pending(r):
    p = r.parser
    return bool(p._tail) or bool(p._lines) or p._payload_parser is not None


def relate(a, b, response=False):
    """(formula, key) : runs a (whole) and b (cut) tell the same story"""
    for r in (a, b):
        if r.escaped is not None:
            return False, f"escape:{type(r.escaped).__name__}"
    ra, rb = a.rejected is not None, b.rejected is not None
    if ra != rb:
        other = b if ra else a
        if pending(other):
            return True, None
        which = "whole" if ra else "cut"
        exc = a.rejected if ra else b.rejected
        if "Data after" in str(getattr(exc, "message", "")) and ra:
            return False, "data-after-connection-close:rejected-only-within-one-read"
        return False, f"verdict-depends-on-cut:{which}-rejects:{type(exc).__name__}"
    if ra and rb:
        return True, None
    oa, ob = observe(a, response), observe(b, response)
    if len(oa) != len(ob):
        return False, f"message-count-depends-on-cut:{len(oa)}-vs-{len(ob)}"
    parts = []
    key = None
    names = ("start-line", "headers", "body", "eof", "payload-exception", "chunk-boundaries", "should-close",
             "compression", "upgrade", "chunked")
    for x, y in zip(oa, ob):
        for nm, u, v in zip(names, x, y):
            c = sym_eq(u, v) if not (u is None or v is None) else (u is None and v is None)
            parts.append(c)
            if c is False and key is None:
                key = f"{nm}-depends-on-cut"
    parts.append(bool(a.upgraded) == bool(b.upgraded))
    parts.append(sym_eq(a.tail, b.tail))
    if key is None:
        if bool(a.upgraded) != bool(b.upgraded):
            key = "upgraded-flag-depends-on-cut"
        else:
            key = "tail-or-field-depends-on-cut"
    return H.fall(parts), key


def _limits(ctx, base_line, base_field, sym):
    if not sym:
        return dict(max_line_size=8190, max_field_size=8190, max_headers=128)
    return dict(
        max_line_size=ctx.int("max_line_size", max(1, base_line - 2), base_line + 2),
        max_field_size=ctx.int("max_field_size", max(1, base_field - 2), base_field + 2),
        max_headers=ctx.int("max_headers", 1, 6),
    )


def _run(ctx, data, ncuts, limits, response, bytewise=False, eof=True, near=None):
    from aiohttp import http_parser as hp

    cls = hp.HttpResponseParser if response else hp.HttpRequestParser
    kw = dict(limits)
    if response:
        kw.update(read_until_eof=True)
    N = len(data)
    whole = HC.run_request_parser([data], parser_cls=cls, eof=eof, **kw)
    if bytewise:
        chunks = [data[i:i + 1] for i in range(N)]
        cuts = "bytewise"
    else:
        if near is not None:
            lo_c, hi_c = max(0, near[0]), min(N, near[1])
            cuts = [lo_c + ctx.choice("cut0", hi_c - lo_c + 1)]
        else:
            cuts = H.cut_points(ctx, "cut", N, ncuts)
        chunks = H.pieces(data, cuts)
    cut = HC.run_request_parser(chunks, parser_cls=cls, eof=eof, **kw)
    f, key = relate(whole, cut, response)
    tag = ("reject" if whole.rejected is not None else f"accept:{len(whole.msgs)}") + "/" + \
          ("reject" if cut.rejected is not None else f"accept:{len(cut.msgs)}")
    info = None
    if f is not True:
        info = {"key": key, "cuts": cuts}
        if not ctx.symbolic:
            info.update(stream=bytes(data).decode("latin1"), limits={k: int(v) for k, v in limits.items()},
                        whole=repr(whole.rejected), cut=repr(cut.rejected))
    return f, tag, info


REQ_TEMPLATES = {
    "get": b"GET /p HTTP/1.1\r\nHost: a\r\nX-Long-Header: 0123456789\r\n\r\n",
    "post-cl": b"POST /p HTTP/1.1\r\nHost: a\r\nContent-Length: 3\r\n\r\nabcGET / HTTP/1.1\r\nHost: a\r\n\r\n",
    "chunked": b"POST / HTTP/1.1\r\nHost: a\r\nTransfer-Encoding: chunked\r\n\r\n3;x=y\r\nabc\r\n1\r\nd\r\n0\r\nT: v\r\n\r\nGET /n HTTP/1.1\r\nHost: a\r\n\r\n",
    "upgrade": b"GET /ws HTTP/1.1\r\nHost: a\r\nConnection: upgrade\r\nUpgrade: websocket\r\n\r\n\x81\x01x",
    "connect": b"CONNECT a:80 HTTP/1.1\r\nHost: a\r\n\r\nraw",
    "close": b"GET / HTTP/1.1\r\nHost: a\r\nConnection: close\r\n\r\nGET /2 HTTP/1.1\r\nHost: a\r\n\r\n",
    # each kind of line in turn is the longest one (the limits are symbolic around the start line and the longest field)
    "long-trailer": b"POST / HTTP/1.1\r\nHost: a\r\nTransfer-Encoding: chunked\r\n\r\n1\r\na\r\n0\r\nX-Trailer-Field: 0123456789abcdef012345\r\nT2: v\r\n\r\n",
    "long-chunk-ext": b"POST / HTTP/1.1\r\nHost: a\r\nTransfer-Encoding: chunked\r\n\r\n1;ext=0123456789abcdef0123456789\r\na\r\n0\r\n\r\n",
}
RESP_TEMPLATES = {
    "ok-cl": b"HTTP/1.1 200 OK\r\nContent-Length: 3\r\nX: y\r\n\r\nabcHTTP/1.1 204 No Content\r\n\r\n",
    "chunked": b"HTTP/1.1 200 OK\r\nTransfer-Encoding: chunked\r\n\r\n3\r\nabc\r\n0\r\nT: v\r\n\r\n",
    "lf-only": b"HTTP/1.1 200 OK\nContent-Length: 2\nFold: a\n b\n\nhi",
    "eof-body": b"HTTP/1.0 200 OK\r\nX: y\r\n\r\nbody until eof",
    "chunked-lax": b"HTTP/1.1 200 OK\r\nTransfer-Encoding: chunked\r\n\r\n 3 \r\nabc\r\n0\r\n\r\n",
    "long-trailer": b"HTTP/1.1 200 OK\r\nTransfer-Encoding: chunked\r\n\r\n1\r\na\r\n0\r\nX-Trailer-Field: 0123456789abcdef012345\r\n\r\n",
    # a content-coded body (raw deflate of b"hello hello hello hello"; zlib runs natively on these concrete bytes):
    # what the application can read must not depend on the cuts either
    "chunked-deflate-raw": b"HTTP/1.1 200 OK\r\nContent-Encoding: deflate\r\nTransfer-Encoding: chunked\r\n\r\n"
                           b"a\r\n\xcbH\xcd\xc9\xc9W\xc8@'\x01\r\n0\r\n\r\n",
}


def template(ctx, kind="req", name="get", lo=0, hi=None, h=1, ncuts=1, sym_limits=False, bytewise=False,
             cut_near=None, mode="replace"):
    t = (REQ_TEMPLATES if kind == "req" else RESP_TEMPLATES)[name]
    hi = len(t) - h + 1 if hi is None else hi
    near = None
    if h:
        pos = lo + ctx.choice("pos", hi - lo)
        data = t[:pos] + ctx.bytes("h", h, "bytewise") + (t[pos + h:] if mode == "replace" else t[pos:])
        if cut_near is not None:
            near = (pos - cut_near, pos + h + cut_near)
    else:
        data = t
    first = t.find(b"\n")
    longest = max(len(x) for x in t.split(b"\n")[1:]) if sym_limits else 0
    lim = _limits(ctx, first - 1, longest - 1, sym_limits)
    return _run(ctx, data, ncuts, lim, kind == "resp", bytewise, near=near)


def symbolic_stream(ctx, kind="req", n=4, ncuts=1, prefix=b"", domain="bytewise"):
    data = prefix + ctx.bytes("d", n, domain) if prefix else ctx.bytes("d", n, domain)
    lim = _limits(ctx, 0, 0, False)
    return _run(ctx, data, ncuts, lim, kind == "resp")


def twin(ctx):
    p, tag, info = template(ctx, "req", "get", 0, 4, 1, 1)
    return False, tag, {"key": "twin"}


def setup_models():
    HC.setup_parser_models()


def jobs(tier):
    quick = tier == "quick"
    lim = {"time_limit": 70 if quick else 1500}
    out = []
    span = 10 if quick else 6
    near = 6 if quick else None
    for kind, T in (("req", REQ_TEMPLATES), ("resp", RESP_TEMPLATES)):
        for name, t in T.items():
            # all single cuts, no window, symbolic limits
            out.append(dict(name=f"{kind}-{name}-limits", func="template",
                            params=dict(kind=kind, name=name, h=0, ncuts=1, sym_limits=True), limits=lim))
            out.append(dict(name=f"{kind}-{name}-2cuts", func="template",
                            params=dict(kind=kind, name=name, h=0, ncuts=2), limits=lim))
            out.append(dict(name=f"{kind}-{name}-bytewise", func="template",
                            params=dict(kind=kind, name=name, h=0, bytewise=True), limits=lim))
            if name == "chunked-deflate-raw" or (quick and name in ("connect", "close", "eof-body", "long-trailer", "long-chunk-ext")):
                continue  # (windows inside compressed bytes only produce undecodable streams)
            for lo in range(0, len(t), span):
                out.append(dict(name=f"{kind}-{name}-w1-{lo}", func="template",
                                params=dict(kind=kind, name=name, lo=lo, hi=min(lo + span, len(t)), h=1, ncuts=1,
                                            cut_near=near),
                                limits=lim))
            # one extra byte inserted (e.g. a doubled CR): everywhere (thorough) / from the body on (quick)
            body0 = t.find(b"\r\n\r\n") + 2 if b"\r\n\r\n" in t else t.find(b"\n\n")
            for lo in range(0, len(t) + 1, span):
                if quick and (lo + span <= body0 or "chunked" not in name):
                    continue
                out.append(dict(name=f"{kind}-{name}-ins1-{lo}", func="template",
                                params=dict(kind=kind, name=name, lo=lo, hi=min(lo + span, len(t) + 1), h=1, ncuts=1,
                                            cut_near=near, mode="insert"),
                                limits=lim))
            if not quick:
                for lo in range(0, len(t) - 1, span):
                    out.append(dict(name=f"{kind}-{name}-w2-{lo}", func="template",
                                    params=dict(kind=kind, name=name, lo=lo, hi=min(lo + span, len(t) - 1), h=2,
                                                ncuts=1), limits=lim))
    for kind, pre in (("req", b"POST / HTTP/1.1\r\nHost: a\r\nTransfer-Encoding: chunked\r\n\r\n"),
                      ("resp", b"HTTP/1.1 200 OK\r\nTransfer-Encoding: chunked\r\n\r\n")):
        for n in ((3,) if quick else (3, 4, 5, 6)):
            out.append(dict(name=f"{kind}-chunked-sym-{n}", func="symbolic_stream",
                            params=dict(kind=kind, n=n, ncuts=1, prefix=pre, domain=None), limits=lim))
    return out


def twins(tier):
    return [dict(name="twin", func="twin", params={}, limits={"time_limit": 30, "max_paths": 30})]


REQUIRED_OUTCOMES = ("reject/reject", "accept:1/accept:1", "accept:2/accept:2")


def bounds(tier):
    return {"templates": {"request": sorted(REQ_TEMPLATES), "response": sorted(RESP_TEMPLATES)},
            "cuts": "unmodified templates: every single cut, every pair of cuts, byte-at-a-time; templates with a window: every single cut (thorough) / every cut within 6 bytes of the window (quick)",
            "window": "1 byte (quick), 1-2 bytes (thorough) replacing the bytes at every offset; 1 byte inserted at every offset (thorough) / at every offset from the end of the header block on in the chunked templates (quick); domain 0x00-0x7F u 0xF8-0xFF",
            "limits": "max_line_size in [len(start line)-2, +2], max_field_size in [len(longest field)-2, +2], max_headers in 1..6 (symbolic, independent)",
            "symbolic_chunked_bodies": "3..4 bytes (quick), 3..6 (thorough), all 256 values"}

"""C09 Body decoding: memory-bounded and always progressing (flow-control half).

Claimed: the four-party pause protocol (transport pause, HttpPayloadParser pause,
decompressor max_length / data_available, StreamReader water marks) and the size
limits, with the decompressor replaced by a contract stub.  NOT claimed: that decoded
bytes equal the reference decoding of gzip/deflate/brotli/zstd (C libraries, FFI).

Real code: ResponseHandler.data_received/pause_reading/resume_reading, BaseProtocol,
HttpResponseParser.feed_data (payload_has_more_data), HttpPayloadParser.feed_data /
feed_eof (pause branches), DeflateBuffer.feed_data/feed_eof, StreamReader, ClientResponse.
"""
from __future__ import annotations

import asyncio

from harness.vloop import MemTransport, VLoop, install
from symx import core

PID = "C09"
EXPLANATION = (
    "One response body (chunked with a solver-chosen chunking, or Content-Length framed; identity or 'gzip' with the "
    "decompressor replaced by a contract stub of solver-chosen expansion ratio that honours max_length and "
    "data_available) is delivered to the real client protocol stack in up to three solver-chosen segments; between "
    "segments the consumer performs a solver-chosen read (none, read(1), read(3), readany) and finally reads to the end; "
    "read buffer limit solver-chosen (2 or 4 bytes). Checked after every step: every decompress call carries max_length "
    "> 0 unless read() lifted the limit; decoded bytes resident in the reader stay within 2*limit + max_length + the "
    "segment just delivered; never input pending with the consumer blocked and nothing scheduled; the consumer's final "
    "read completes with exactly the decoded body; a stub that raises yields a payload error, never data.")
ASSUMPTIONS = [
    "the decompressor is a contract stub (zlib/brotli/zstd are C libraries behind FFI): output = each input byte repeated `ratio` times, at most max_length bytes per call, data_available while output is pending",
    "in-memory transport that honours pause_reading (a paused transport delivers nothing until resumed)",
]
TRUSTED = ["harness/vloop.py"]

BODY0 = b"hello world!"  # first byte 0x68: low nibble 8, like a zlib (RFC 1950) header
CHUNKINGS = {"11+1": [11, 1], "5+7": [5, 7], "12": [12], "1x3+9": [1, 1, 1, 9]}
DEEP_CHUNKINGS = {"2+2+8": [2, 2, 8], "4x3": [4, 4, 4], "1+11": [1, 11]}
CHUNKINGS_ALL = dict(CHUNKINGS, **DEEP_CHUNKINGS)


class _Stub:
    """contract stub for ZLibDecompressor"""

    ratio = 1
    fail_at = None
    calls = []

    def __init__(self, encoding=None, suppress_deflate_header=False, **kw):
        self.pending = b""
        self.fed = 0
        self.encoding = encoding
        self.raw = suppress_deflate_header

    def decompress_sync(self, data, max_length=0):
        _Stub.calls.append((len(data), max_length))
        if _Stub.fail_at is not None and self.fed + len(data) > _Stub.fail_at:
            raise ValueError("corrupt stream")
        if self.fed == 0 and len(data) and self.encoding == "deflate" and not self.raw and data[0] & 0xF != 8:
            # contract of zlib.decompressobj(wbits=MAX_WBITS): a stream without the RFC 1950 header
            # (CM nibble 8) is refused with "incorrect header check"
            raise ValueError("incorrect header check")
        self.fed += len(data)
        self.pending = self.pending + b"".join(bytes([b]) * _Stub.ratio for b in data)
        if max_length and max_length > 0:
            out, self.pending = self.pending[:max_length], self.pending[max_length:]
        else:
            out, self.pending = self.pending, b""
        return out

    @property
    def data_available(self):
        return bool(self.pending)

    @property
    def eof(self):
        """end-of-stream marker seen: the whole (12 byte) body has been fed"""
        return self.fed >= len(BODY0)

    def flush(self, *a):
        return b""


def body_flow(ctx, framing="chunked", compressed=False, corrupt=False, chunkings=None, encoding="gzip", light=False,
              deep=False):
    import logging

    import aiohttp
    from aiohttp import http_parser as hp
    from aiohttp.client_proto import ResponseHandler
    from aiohttp.connector import BaseConnector

    logging.disable(logging.CRITICAL)
    loop = install(VLoop())
    limit = ctx.pick("read_bufsize", [4] if light else ([1, 2, 4] if deep else [2, 4]))
    ratio = ctx.pick("ratio", [3] if light else ([1, 3, 10] if deep else [1, 3])) if compressed else 1
    _Stub.ratio = ratio
    _Stub.calls = []
    _Stub.fail_at = 5 if corrupt else None
    hp.ZLibDecompressor = _Stub
    chunking = ctx.pick("chunking", sorted(chunkings or CHUNKINGS)) if framing == "chunked" else "len"
    # encoding 'deflate-raw': a deflate body without the zlib header (first byte's low nibble is not 8,
    # here 'a' = 0x61; the other bodies start with 0x68), which DeflateBuffer must recognise from the first data byte in any segmentation
    BODY = BODY0 if encoding != "deflate-raw" else b"a" + BODY0[1:]
    hdr = b"HTTP/1.1 200 OK\r\n" + (b"Content-Encoding: " + encoding.split("-")[0].encode() + b"\r\n" if compressed else b"")
    if framing == "chunked":
        wire = b""
        pos = 0
        for n in CHUNKINGS_ALL[chunking]:
            wire += b"%x\r\n" % n + BODY[pos:pos + n] + b"\r\n"
            pos += n
        wire += b"0\r\n\r\n"
        hdr += b"Transfer-Encoding: chunked\r\n\r\n"
    else:
        wire = BODY
        hdr += b"Content-Length: %d\r\n\r\n" % len(BODY)
    expected = b"".join(bytes([b]) * ratio for b in BODY)
    holder = {}

    class Tr(MemTransport):
        pass

    class Conn(BaseConnector):
        async def _create_connection(self, req, traces, timeout):
            p = ResponseHandler(loop)
            tr = Tr()
            p.connection_made(tr)
            holder["proto"], holder["tr"] = p, tr
            return p

    async def mk():
        return aiohttp.ClientSession(connector=Conn(), read_bufsize=limit, cookie_jar=aiohttp.DummyCookieJar())

    session = loop.run_until_complete(mk())
    state = {"resp": None, "got": b"", "err": None, "done": False}
    trace = []

    async def open_resp():
        state["resp"] = await session.get("http://h/")

    t = asyncio.Task(open_resp(), loop=loop)
    loop.run_ready()
    proto, tr = holder["proto"], holder["tr"]
    proto.data_received(hdr)
    loop.run_ready()
    if state["resp"] is None:
        return False, "no-response", {"key": "response-not-started"}
    resp = state["resp"]
    content = resp.content
    # cut candidates: every structural boundary of the body wire image and its neighbours
    cand = {0, len(wire)}
    i = 0
    while i < len(wire):
        j = wire.find(b"\r\n", i)
        if j < 0:
            break
        cand.update({j, j + 1, j + 2})
        i = j + 2
    if framing != "chunked":
        cand.update(range(0, len(wire) + 1, 3))
    cand = sorted(c for c in cand if 0 <= c <= len(wire))
    c0 = ctx.pick("cut0", cand)
    c1 = ctx.pick("cut1", [c for c in cand if c >= c0])
    cuts = sorted({c0, c1})
    segs = [s for s in [wire[:cuts[0]], wire[cuts[0]:cuts[-1]], wire[cuts[-1]:]] if s]
    queue = list(segs)  # what the "kernel" still holds for this socket
    lifted = {"v": False}

    def fail(key, **kw):
        info = {"key": key, "framing": framing, "compressed": compressed, "chunking": chunking, "limit": limit,
                "ratio": ratio, "cuts": cuts, "trace": trace}
        info.update(kw)
        return False, "inv:" + key, info

    pending_read = {"t": None}

    async def consume(op):
        try:
            if op == "read1":
                d = await content.read(1)
            elif op == "read3":
                d = await content.read(3)
            elif op == "readany":
                d = await content.readany()
            else:
                lifted["v"] = True
                d = await content.read()
            state["got"] += d
        except Exception as e:  # noqa: BLE001
            state["err"] = type(e).__name__

    def deliver():
        """the transport hands over the next segment unless reading is paused"""
        if queue and not tr.paused and not tr.closed:
            seg = queue.pop(0)
            trace.append(["seg", len(seg)])
            proto.data_received(seg)
            loop.run_ready()
            return len(seg)
        return 0

    seen = {"max_seg": 0}

    def check(last_seg):
        seen["max_seg"] = max(seen["max_seg"], last_seg)
        max_length = max(limit, 1)
        for (_n, ml) in _Stub.calls:
            if ml <= 0 and not lifted["v"]:
                return fail("decompress-called-without-output-cap")
        resident = content._size
        # identity: one delivered segment lands in the buffer whole; stub-compressed: each decompress
        # call adds at most max_length (= limit) and the loop stops once the reader is over its high mark
        # (read(n) re-derives the reader's marks from n: the limit that counts is the live one)
        eff = max(limit, getattr(content, "_low_water", limit))
        bound = 2 * eff + (eff if compressed else 0) + (seen["max_seg"] if not compressed else eff)
        if not lifted["v"] and resident > bound:
            return fail("decoded-bytes-resident-above-bound", resident=resident, bound=bound)
        if loop.exc:
            return fail("loop-exception-handler-called", exc=str(loop.exc[0].get("exception"))[:200])
        return None

    for step in range(3):
        n = deliver()
        r = check(n)
        if r:
            return r
        op = ctx.pick(f"consumer{step}", ["none", "readany"] if light else
                      (["none", "read1", "read3", "readany"] if deep else ["none", "read1", "readany"]))
        if op != "none" and (pending_read["t"] is None or pending_read["t"].done()) and state["err"] is None:
            trace.append([op])
            pending_read["t"] = asyncio.Task(consume(op), loop=loop)
            loop.run_ready()
            r = check(0)
            if r:
                return r
    # ---- the consumer now reads everything; the transport keeps delivering whenever it is not paused
    if pending_read["t"] is not None and not pending_read["t"].done():
        for _ in range(8):
            if pending_read["t"].done():
                break
            if not deliver():
                break
    if pending_read["t"] is not None and not pending_read["t"].done():
        # blocked partial read with nothing deliverable and nothing scheduled
        if not queue or tr.paused:
            return fail("reader-starves-with-input-pending", queue=len(queue), paused=tr.paused)
    fin = asyncio.Task(consume("readall"), loop=loop)
    loop.run_ready()
    for _ in range(12):
        if fin.done():
            break
        if not deliver():
            loop.run_ready()
            if not fin.done():
                break
    if not fin.done():
        fin.cancel()
        loop.run_ready()
        return fail("reader-starves-with-input-pending", queue=len(queue), paused=tr.paused,
                    got=len(state["got"]))
    tag = f"{framing}:{({'gzip': 'gz'}.get(encoding, encoding)) if compressed else 'id'}:{'corrupt' if corrupt else 'ok'}"
    if corrupt:
        if state["err"] is None:
            return fail("corrupt-encoding-delivered-as-data", got=state["got"].decode("latin1"))
        return True, tag, None
    if state["err"] is not None:
        return fail("valid-body-raises:" + state["err"])
    if state["got"] != expected:
        return fail("decoded-bytes-differ", got=state["got"].decode("latin1"), expected=expected.decode("latin1"))
    resp.release()
    ct = asyncio.Task(session.close(), loop=loop)
    loop.run_ready()
    return True, tag, None

# ---- the real codecs on concrete bodies: decoded bytes equal the reference decoding -----------------
PLAIN = (b"hello world, " * 40) + bytes(range(256)) + (b"\x00" * 300)


def _encoded(kind):
    import gzip
    import zlib

    if kind == "gzip":
        return gzip.compress(PLAIN, mtime=0), "gzip"
    if kind == "gzip-2-members":
        h = len(PLAIN) // 2
        return gzip.compress(PLAIN[:h], mtime=0) + gzip.compress(PLAIN[h:], mtime=0), "gzip"
    if kind == "deflate-zlib":
        return zlib.compress(PLAIN), "deflate"
    if kind == "deflate-raw":
        c = zlib.compressobj(wbits=-15)
        return c.compress(PLAIN) + c.flush(), "deflate"
    if kind in ("deflate-zlib-members", "deflate-raw-members", "gzip-members-aligned"):
        # several members whose decoded sizes are multiples of the read limits used (4, 64): an output
        # budget can be used up exactly at a member boundary with the next member already in the buffer
        out = b""
        for part in MEMBERS:
            if kind == "gzip-members-aligned":
                out += gzip.compress(part, mtime=0)
            else:
                c = zlib.compressobj(wbits=15 if kind == "deflate-zlib-members" else -15)
                out += c.compress(part) + c.flush()
        return out, ("gzip" if kind.startswith("gzip") else "deflate")
    raise ValueError(kind)


MEMBERS = [bytes(range(64)), b"m" * 64, b"tailend"]


def real_codec(ctx, kind="gzip", corrupt=False):
    """zlib itself runs (on concrete bytes): for solver-chosen framing, chunk size, segmentation, read
    buffer limit and reading pattern the caller gets exactly the reference decoding; with one body
    byte flipped (gzip: the CRC notices) the read ends in a payload error, never in a complete body."""
    import logging

    import aiohttp
    from aiohttp.client_proto import ResponseHandler
    from aiohttp.connector import BaseConnector

    logging.disable(logging.CRITICAL)
    loop = install(VLoop())
    # (another job in this worker process may have put the contract stub in place)
    from aiohttp import compression_utils, http_parser as _hp

    _hp.ZLibDecompressor = compression_utils.ZLibDecompressor
    enc_body, token = _encoded(kind)
    plain = b"".join(MEMBERS) if "members" in kind and kind != "gzip-2-members" else PLAIN
    if corrupt:
        pos = ctx.pick("flip_at", [12, len(enc_body) // 2, len(enc_body) - 12])
        enc_body = enc_body[:pos] + bytes([enc_body[pos] ^ 0x5A]) + enc_body[pos + 1:]
    framing = ctx.pick("framing", ["length", "chunked-7", "chunked-64", "chunked-whole"])
    hdr = b"HTTP/1.1 200 OK\r\nContent-Encoding: " + token.encode() + b"\r\n"
    if framing == "length":
        wire = enc_body
        hdr += b"Content-Length: %d\r\n\r\n" % len(enc_body)
    else:
        n = {"chunked-7": 7, "chunked-64": 64, "chunked-whole": len(enc_body)}[framing]
        wire = b"".join(b"%x\r\n" % len(enc_body[i:i + n]) + enc_body[i:i + n] + b"\r\n" for i in range(0, len(enc_body), n))
        wire += b"0\r\n\r\n"
        hdr += b"Transfer-Encoding: chunked\r\n\r\n"
    limit = ctx.pick("read_bufsize", [4, 64, 65536])
    holder = {}

    class Conn(BaseConnector):
        async def _create_connection(self, req, traces, timeout):
            p = ResponseHandler(loop)
            tr = MemTransport()
            p.connection_made(tr)
            holder["proto"], holder["tr"] = p, tr
            return p

    async def mk():
        return aiohttp.ClientSession(connector=Conn(), read_bufsize=limit, cookie_jar=aiohttp.DummyCookieJar())

    session = loop.run_until_complete(mk())
    state = {"resp": None, "got": b"", "err": None}

    async def go():
        state["resp"] = await session.get("http://h/")

    t = asyncio.Task(go(), loop=loop)
    loop.run_ready()
    proto, tr = holder["proto"], holder["tr"]
    proto.data_received(hdr)
    loop.run_ready()
    if state["resp"] is None:
        return False, "no-response", {"key": "response-not-started"}
    content = state["resp"].content
    marks = sorted({0, 1, 2, 3, 4, 9, 10, 11, 12, 18, len(wire) // 2, len(wire) - 9, len(wire) - 8, len(wire) - 5,
                    len(wire) - 2, len(wire) - 1, len(wire)})
    marks = [m for m in marks if 0 <= m <= len(wire)]
    c0 = ctx.pick("cut0", marks)
    c1 = ctx.pick("cut1", [m for m in marks if m >= c0])
    queue = [x for x in (wire[:c0], wire[c0:c1], wire[c1:]) if x]
    pattern = ctx.pick("reader", ["read-all", "read-17", "readany", "iter-chunked-5"])

    async def consume():
        try:
            if pattern == "read-all":
                state["got"] += await content.read()
            elif pattern == "read-17":
                while True:
                    d = await content.read(17)
                    if not d:
                        break
                    state["got"] += d
            elif pattern == "readany":
                while True:
                    d = await content.readany()
                    if not d:
                        break
                    state["got"] += d
            else:
                async for d in content.iter_chunked(5):
                    state["got"] += d
        except Exception as e:  # noqa: BLE001
            state["err"] = type(e).__name__

    fin = asyncio.Task(consume(), loop=loop)
    loop.run_ready()
    for _ in range(20000):
        if fin.done():
            break
        if queue and not tr.paused and not tr.closed:
            proto.data_received(queue.pop(0))
            loop.run_ready()
            continue
        loop.run_ready()
        if fin.done():
            break
        if not queue or tr.paused:
            break
    info = {"kind": kind, "framing": framing, "limit": limit, "cuts": [c0, c1], "reader": pattern, "corrupt": corrupt}
    if not fin.done():
        fin.cancel()
        loop.run_ready()
        info.update(key="reader-starves-with-input-pending", queue=len(queue), paused=tr.paused, got=len(state["got"]))
        return False, "inv:codec", info
    tag = f"codec:{kind}:{'corrupt' if corrupt else 'ok'}"
    if corrupt:
        if state["err"] is None and state["got"] == plain:
            return True, tag + ":harmless-flip", None  # (a flipped bit in a header field zlib ignores)
        if state["err"] is None:
            info.update(key="corrupt-encoding-delivered-as-complete-body", got=len(state["got"]))
            return False, "inv:codec", info
        return True, tag, None
    if state["err"] is not None:
        info.update(key="valid-body-raises:" + state["err"])
        return False, "inv:codec", info
    if state["got"] != plain:
        info.update(key="decoded-bytes-differ-from-reference", got=len(state["got"]), want=len(plain))
        return False, "inv:codec", info
    return True, tag, None


def max_size(ctx):
    """server side: BaseRequest.read() never accumulates more than client_max_size"""
    from aiohttp import web
    from aiohttp.test_utils import make_mocked_request
    from aiohttp.streams import StreamReader

    loop = install(VLoop())
    cms = ctx.pick("client_max_size", [4, 8, 12])
    total = ctx.pick("body_len", [3, 4, 5, 8, 9, 12, 13, 20])
    seg = ctx.pick("segment", [1, 3, 5])

    class P:
        _reading_paused = False
        connected = True

        def pause_reading(self):
            pass

        def resume_reading(self, resume_parser=True):
            pass

    payload = StreamReader(P(), 2 ** 16, loop=loop)
    req = make_mocked_request("POST", "/", payload=payload, client_max_size=cms)
    out = {}

    async def go():
        try:
            out["body"] = await req.read()
        except web.HTTPRequestEntityTooLarge:
            out["err"] = 413

    t = asyncio.Task(go(), loop=loop)
    loop.run_ready()
    sent = 0
    peak = 0
    while sent < total and not t.done():
        n = min(seg, total - sent)
        payload.feed_data(b"x" * n)
        sent += n
        loop.run_ready()
    if not t.done():
        payload.feed_eof()
        loop.run_ready()
    if not t.done():
        return False, "stuck", {"key": "request-read-never-returns"}
    if total > cms:
        ok = out.get("err") == 413
        return ok, "too-large", (None if ok else {"key": "body-above-client-max-size-returned", "len": len(out.get("body", b""))})
    ok = out.get("body") == b"x" * total
    return ok, "fits", (None if ok else {"key": "body-within-client-max-size-refused-or-altered"})

def multipart_max_size(ctx):
    """server side: a compressed multipart part read with decode=True never yields more than
    client_max_size bytes - the limit counts what has been decoded so far, whatever the block size of
    the decompressor (real zlib on a concrete, highly compressible part)"""
    import gzip
    import zlib

    from aiohttp import web
    from aiohttp.streams import StreamReader
    from aiohttp.test_utils import make_mocked_request

    loop = install(VLoop())
    enc = ctx.pick("part_encoding", ["gzip", "deflate"])
    size = ctx.pick("decoded_size", [100, 300 * 1024, 600 * 1024, 3 * 1024 * 1024])
    cms = ctx.pick("client_max_size", [200, 512 * 1024, 1024 * 1024])
    api = ctx.pick("api", ["read", "text"])
    plain = b"a" * size
    if enc == "gzip":
        comp = gzip.compress(plain, mtime=0)
    else:
        # (aiohttp's multipart writer and reader use raw deflate for a part's 'deflate' coding)
        c = zlib.compressobj(wbits=-15)
        comp = c.compress(plain) + c.flush()
    body = (b"--b\r\nContent-Type: text/plain\r\nContent-Encoding: " + enc.encode() + b"\r\n\r\n" + comp + b"\r\n--b--\r\n")

    class P:
        _reading_paused = False
        connected = True

        def pause_reading(self):
            pass

        def resume_reading(self, resume_parser=True):
            pass

    payload = StreamReader(P(), 2 ** 22, loop=loop)
    payload.feed_data(body)
    payload.feed_eof()
    req = make_mocked_request("POST", "/", headers={"Content-Type": "multipart/mixed; boundary=b"}, payload=payload,
                              client_max_size=cms)
    out = {}

    async def go():
        try:
            reader = await req.multipart()
            part = await reader.next()
            out["data"] = (await part.read(decode=True)) if api == "read" else (await part.text()).encode()
        except web.HTTPRequestEntityTooLarge:
            out["err"] = 413
        except Exception as e:  # noqa: BLE001
            out["exc"] = type(e).__name__

    t = asyncio.Task(go(), loop=loop)
    loop.run_ready()
    info = {"part_encoding": enc, "decoded_size": size, "client_max_size": cms, "api": api}
    if not t.done():
        t.cancel()
        loop.run_ready()
        info["key"] = "multipart-part-read-never-returns"
        return False, "inv:mp", info
    if "exc" in out:
        info["key"] = "multipart-part-read-raises:" + out["exc"]
        return False, "inv:mp", info
    if size > cms:
        if out.get("err") != 413:
            info.update(key="decoded-part-above-client-max-size-returned", returned=len(out.get("data", b"")))
            return False, "inv:mp", info
        return True, "mp:too-large", None
    if out.get("data") != plain:
        info.update(key="decoded-part-within-client-max-size-refused-or-altered", err=out.get("err"))
        return False, "inv:mp", info
    return True, "mp:fits", None


def twin(ctx):
    r = body_flow(ctx, "chunked", False)
    return False, r[1], {"key": "twin"}


def jobs(tier):
    quick = tier == "quick"
    lim = {"time_limit": 110 if quick else 1200}
    out = []
    for framing in ("chunked", "length"):
        for ck in (sorted(CHUNKINGS if quick else CHUNKINGS_ALL) if framing == "chunked" else [None]):
            cks = [ck] if ck else None
            for compressed in (False, True):
                out.append(dict(name=f"flow-{framing}-{ck}-{'gz' if compressed else 'id'}", func="body_flow",
                                params=dict(framing=framing, compressed=compressed, chunkings=cks, deep=not quick),
                                limits=lim))
            out.append(dict(name=f"flow-{framing}-{ck}-corrupt", func="body_flow",
                            params=dict(framing=framing, compressed=True, corrupt=True, chunkings=cks, deep=not quick),
                            limits=lim))
    for enc in ("deflate-raw", "deflate-zlib"):
        for ck in (("1x3+9", "5+7") if quick else sorted(CHUNKINGS_ALL)):
            out.append(dict(name=f"flow-chunked-{ck}-{enc}", func="body_flow",
                            params=dict(framing="chunked", compressed=True, chunkings=[ck], encoding=enc, light=quick),
                            limits=lim))
        out.append(dict(name=f"flow-length-{enc}", func="body_flow",
                        params=dict(framing="length", compressed=True, encoding=enc, light=quick), limits=lim))
    for kind in ("gzip", "gzip-2-members", "deflate-zlib", "deflate-raw", "deflate-zlib-members", "deflate-raw-members",
                 "gzip-members-aligned"):
        out.append(dict(name=f"codec-{kind}", func="real_codec", params=dict(kind=kind), limits=lim))
    out.append(dict(name="codec-gzip-corrupt", func="real_codec", params=dict(kind="gzip", corrupt=True), limits=lim))
    out.append(dict(name="client-max-size", func="max_size", params={}, limits=lim))
    out.append(dict(name="multipart-max-size", func="multipart_max_size", params={}, limits=lim))
    return out


def twins(tier):
    return [dict(name="twin", func="twin", params={}, limits={"time_limit": 30, "max_paths": 30})]


REQUIRED_OUTCOMES = ("chunked:id:ok", "chunked:gz:ok", "length:gz:corrupt", "chunked:deflate-raw:ok", "chunked:deflate-zlib:ok", "too-large", "fits")


def bounds(tier):
    q = tier == "quick"
    return {"body": "12 bytes; chunkings " + str(sorted(CHUNKINGS if q else CHUNKINGS_ALL)) + " or Content-Length",
            "encodings": "identity; 'gzip' and 'deflate' (raw and zlib-wrapped first byte) through the contract stub",
            "segments": "2 symbolic cuts of the body wire image at every structural boundary (chunk-size line end, chunk data end, CRLF) and its neighbours",
            "consumer": ("none/read(1)/readany" if q else "none/read(1)/read(3)/readany") + " after each of 3 delivery steps, then read() to the end",
            "limits": ("read_bufsize in {2,4}; stub expansion ratio in {1,3}" if q else "read_bufsize in {1,2,4}; stub expansion ratio in {1,3,10}") +
                      "; client_max_size in {4,8,12} vs body 3..20 in segments of 1/3/5"}

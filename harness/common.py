"""Shared harness helpers (importable with and without the symx hook)."""
from __future__ import annotations

from symx import core
from symx.core import SBool, SInt, SSeq, conj, disj, neg, sym_eq


def feq(a, b):
    """formula (or bool) for structural equality of outputs"""
    return sym_eq(a, b)


def fall(xs):
    return conj(list(xs))


def fany(xs):
    return disj(list(xs))


def fnot(x):
    return neg(x)


def fimplies(a, b):
    return disj([neg(a), b])


def in_codes(code, codes):
    return disj([sym_eq(code, c) for c in codes])


def cut_points(ctx, name, n, k):
    """k non-decreasing symbolic cut positions in 0..n, returned concretely"""
    cuts = []
    lo = 0
    for i in range(k):
        c = lo + ctx.choice(f"{name}{i}", n - lo + 1)
        cuts.append(c)
        lo = c
    return cuts


def pieces(data, cuts):
    out = []
    prev = 0
    for c in cuts:
        out.append(data[prev:c])
        prev = c
    out.append(data[prev:])
    return out


def concrete_len(x):
    return len(x)


def model_ws_mask():
    """exact model of aiohttp._websocket.helpers._websocket_mask_python (XOR with
    mask[i % 4]); equivalence with the real function is a separately checked
    lemma (lemmas.ws_mask)."""
    from symx import hook
    from aiohttp._websocket import helpers

    def mask_model(mask, data):
        assert len(mask) == 4
        if not isinstance(data, SSeq) and not isinstance(mask, SSeq):
            return helpers._websocket_mask_python.__wrapped__(mask, data) if hasattr(
                helpers._websocket_mask_python, "__wrapped__") else _orig(mask, data)
        m = core.SBytes(mask)
        out = []
        d = core.SBytes(data) if not isinstance(data, SSeq) else data
        for i, x in enumerate(d):
            out.append(x ^ m[i % 4])
        if isinstance(data, core.SByteArray):
            data.b = core.SBytes(core.E(v) for v in out).b
        else:
            data[:] = core.SByteArray(core.E(v) for v in out)

    _orig = helpers._websocket_mask_python
    hook.FUNC_MODELS[_orig] = mask_model

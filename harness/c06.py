"""C06 Client connection reuse never mixes responses.

Real code: ClientSession._request, ClientRequest send path, ResponseHandler
(data_received/set_response_params/should_close/connection_lost), HttpResponseParser,
ClientResponse.start/read/release/close, BaseConnector.connect/_get/_release - all real;
the network is a scripted peer on in-memory transports, time is virtual.
"""
from __future__ import annotations

import asyncio

from harness.vloop import MemTransport, VLoop, install
from symx import core

PID = "C06"
EXPLANATION = (
    "The solver chooses a script of k steps over {start a GET on host A or B (the caller reads the body and releases), "
    "peer answers the oldest unanswered request of a connection with a complete keep-alive response echoing that "
    "request's path - optionally followed by surplus bytes (a second response / garbage; also with the header block delivered first and body + surplus in one segment), optionally truncated, "
    "optionally with Connection: close -, peer sends an unsolicited complete response - or only the beginning of one - on an idle connection, peer closes "
    "the connection, caller cancels; a tracing hook may suspend between taking a connection out of the pool and starting the request on it}. Every response delivered to a caller must echo that caller's own request path "
    "(or the call fails); a connection that saw surplus or unsolicited bytes, a truncated body, an error or a cancel must "
    "not serve a later request; connections are only reused for the same host, port and scheme.")
ASSUMPTIONS = [
    "the peer is scripted on in-memory transports (no sockets, TLS, proxies); DNS is bypassed by a BaseConnector subclass whose _create_connection returns a real ResponseHandler",
    "virtual time; cookie jar is a DummyCookieJar",
]
TRUSTED = ["harness/vloop.py"]


def _resp(body, extra=b"", close=False, version=b"1.1"):
    return (b"HTTP/" + version + b" 200 OK\r\nContent-Length: " + str(len(body)).encode() + b"\r\n"
            + (b"Connection: close\r\n" if close else b"") + extra + b"\r\n" + body)


BASE = {"a": "http://a", "b": "http://b", "a:81": "http://a:81", "s:a": "https://a"}


def history(ctx, k=5, first=(), hosts=("a", "b")):
    import logging

    import aiohttp
    from aiohttp.client_proto import ResponseHandler
    from aiohttp.connector import BaseConnector

    logging.disable(logging.CRITICAL)
    loop = install(VLoop())
    greeting = ctx.flag("peer_greets_before_first_request")
    conns = []  # dict(proto, tr, host, answered, dead)

    class Conn(BaseConnector):
        async def _create_connection(self, req, traces, timeout):
            proto = ResponseHandler(loop)
            tr = MemTransport()
            proto.connection_made(tr)
            conns.append({"proto": proto, "tr": tr, "host": req.url.host, "answered": 0, "tainted": None, "seen": 0,
                          "origin": f"{req.url.scheme}://{req.url.host}:{req.url.port}"})
            if greeting and len(conns) == 1:
                # the peer talks first: a complete response before any request has been written
                proto.data_received(_resp(b"JUNK"))
                conns[-1]["greeted"] = True
            return proto

    # a tracing hook that suspends between "connection taken out of the pool" and "request started"
    hook_blocks = ctx.flag("reuse_hook_suspends")
    gate = {"fut": None}

    async def on_reuse(session_, trace_ctx, params):
        if hook_blocks:
            gate["fut"] = loop.create_future()
            await gate["fut"]

    async def mk():
        tc = aiohttp.TraceConfig()
        tc.on_connection_reuseconn.append(on_reuse)
        return aiohttp.ClientSession(connector=Conn(limit=10), cookie_jar=aiohttp.DummyCookieJar(), trace_configs=[tc])

    session = loop.run_until_complete(mk())
    calls = []  # dict(task, path, host)
    trace = []

    async def do_get(host, path):
        async with session.get(BASE[host] + path) as resp:
            body = await resp.read()
            return resp.status, body

    def requests_on(c):
        """request paths the client has written on this connection so far"""
        raw = bytes(c["tr"].out)
        out = []
        for blk in raw.split(b"\r\n\r\n")[:-1]:
            line = blk.split(b"\r\n")[0]
            parts = line.split(b" ")
            if len(parts) == 3:
                out.append((parts[1], blk))
        return out

    def fail(key, **kw):
        info = {"key": key, "trace": trace}
        info.update(kw)
        return False, "inv:" + key, info

    def check():
        for c in conns:
            reqs = requests_on(c)
            # host confinement: every request written on a connection is for the connection's host
            for path, blk in reqs:
                if (b"Host: " + c["host"].encode()) not in blk:
                    return fail("connection-reused-for-other-host")
                # ... and for the same scheme and port (the pool key is the whole endpoint)
                for call in calls:
                    if call["path"].encode() == path and call["origin"] != c["origin"]:
                        return fail("connection-reused-for-other-endpoint", conn=c["origin"], request=call["origin"])
            if c["tainted"] is not None and len(reqs) > c["tainted_at"]:
                return fail("tainted-connection-reused:" + c["tainted"])
        for call in calls:
            t = call["task"]
            if t.done() and not t.cancelled() and t.exception() is None and not call.get("checked"):
                call["checked"] = True
                status, body = t.result()
                if bytes(body) != call["path"].encode():
                    why = ":peer-greets-before-first-request" if (greeting and bytes(body) == b"JUNK" and call is calls[0]) else ""
                    return fail("response-of-another-exchange-delivered" + why, got=bytes(body).decode("latin1"),
                                expected=call["path"])
        if loop.exc:
            return fail("loop-exception-handler-called", exc=str(loop.exc[0].get("exception")))
        return None

    def taint(c, why):
        if c["tainted"] is None:
            c["tainted"] = why
            c["tainted_at"] = len(requests_on(c))

    nreq = 0
    nadv = 0
    for i in range(k):
        enabled = []
        if nreq < 4:
            enabled += [("get", h) for h in hosts]
        for j, c in enumerate(conns):
            if c["tr"].closed:
                continue
            pending = len(requests_on(c)) - c["answered"]
            if c.get("incomplete"):
                # a truncated response is still open: whatever the peer sends next belongs to it
                enabled += [("peer-eof", j)]
                continue
            if pending > 0:
                enabled += [("answer", j), ("answer+surplus", j), ("answer-truncated", j), ("answer-close", j),
                            ("answer-head-then-body+surplus", j)]
            else:
                enabled += [("unsolicited", j), ("unsolicited-partial", j)]
            enabled += [("peer-eof", j)]
        for j, call in enumerate(calls):
            if not call["task"].done():
                enabled.append(("cancel", j))
        if gate["fut"] is not None and not gate["fut"].done():
            enabled.append(("release-reuse-hook",))
        if conns and nadv < 2:
            # virtual time passes (keep-alive bookkeeping of the pool runs on a 15 s timer)
            enabled += [("advance", 10), ("advance", 6)]
        if not enabled:
            break
        op = tuple(first[i]) if i < len(first) else ctx.pick(f"op{i}", enabled)
        if op not in enabled:
            break
        trace.append(list(op))
        if op[0] == "get":
            nreq += 1
            path = "/" + op[1].replace(":", "_") + str(nreq)
            t = asyncio.Task(do_get(op[1], path), loop=loop)
            from yarl import URL as _URL

            u = _URL(BASE[op[1]])
            calls.append({"task": t, "path": path, "host": op[1], "origin": f"{u.scheme}://{u.host}:{u.port}"})
        elif op[0].startswith("answer"):
            c = conns[op[1]]
            path = requests_on(c)[c["answered"]][0]
            c["answered"] += 1
            if op[0] == "answer":
                c["proto"].data_received(_resp(path))
            elif op[0] == "answer-close":
                c["proto"].data_received(_resp(path, close=True))
                taint(c, "connection-close")
            elif op[0] == "answer+surplus":
                c["proto"].data_received(_resp(path) + _resp(b"JUNK"))
                taint(c, "surplus-bytes-after-response")
            elif op[0] == "answer-head-then-body+surplus":
                # the header block first, then the body and a surplus response in one segment
                full = _resp(path)
                cut = full.index(b"\r\n\r\n") + 4
                c["proto"].data_received(full[:cut])
                loop.run_ready()
                c["proto"].data_received(full[cut:] + _resp(b"JUNK"))
                taint(c, "surplus-bytes-after-response:body-and-surplus-in-one-segment")
            else:
                c["proto"].data_received(_resp(path)[:-1])
                c["incomplete"] = True
                taint(c, "truncated-body")
        elif op[0] == "unsolicited":
            c = conns[op[1]]
            c["proto"].data_received(_resp(b"JUNK"))
            taint(c, "unsolicited-response-while-idle")
        elif op[0] == "unsolicited-partial":
            # the beginning of a message (status line and half a header) with nobody waiting for it
            c = conns[op[1]]
            c["proto"].data_received(b"HTTP/1.1 404 Stale\r\nX-Stale: ")
            taint(c, "unsolicited-partial-message-while-idle")
        elif op[0] == "release-reuse-hook":
            gate["fut"].set_result(None)
        elif op[0] == "peer-eof":
            c = conns[op[1]]
            c["proto"].connection_lost(None)
            c["tr"].closed = True
            taint(c, "peer-closed")
        elif op[0] == "advance":
            nadv += 1
            loop.advance(op[1])
        elif op[0] == "cancel":
            calls[op[1]]["task"].cancel()
            want = calls[op[1]]["path"].encode()
            for c in conns:
                reqs = requests_on(c)
                if not c["tr"].closed and len(reqs) > c["answered"] and reqs[-1][0] == want:
                    taint(c, "request-cancelled")
        loop.run_ready()
        r = check()
        if r:
            return r
    if gate["fut"] is not None and not gate["fut"].done():
        gate["fut"].set_result(None)
        loop.run_ready()
    # wind down: answer everything outstanding correctly, then close
    for _ in range(6):
        progressed = False
        for c in conns:
            if c["tr"].closed or c.get("incomplete"):
                continue
            reqs = requests_on(c)
            if len(reqs) > c["answered"]:
                path = reqs[c["answered"]][0]
                c["answered"] += 1
                c["proto"].data_received(_resp(path))
                progressed = True
                loop.run_ready()
                r = check()
                if r:
                    return r
        if not progressed:
            break
    ct = asyncio.Task(session.close(), loop=loop)
    loop.run_ready()
    loop.advance(1)
    r = check()
    if r:
        return r
    ntr = len(conns)
    return True, f"{nreq}req:{ntr}conn", None


def twin(ctx):
    r = history(ctx, k=2)
    return False, r[1], {"key": "twin"}


def jobs(tier):
    quick = tier == "quick"
    lim = {"time_limit": 110 if quick else 1800}
    k = 5 if quick else 7
    out = []
    seconds = [["answer", 0], ["answer+surplus", 0], ["answer-truncated", 0], ["answer-close", 0], ["peer-eof", 0],
               ["cancel", 0], ["get", "a"], ["get", "b"]]
    for s in seconds:
        out.append(dict(name="hist-" + "-".join(map(str, s)), func="history",
                        params=dict(k=k, first=[["get", "a"], s]), limits=lim))
    # same host name, different port / scheme: three endpoints, three pool keys
    out.append(dict(name="hist-endpoints", func="history",
                    params=dict(k=6 if quick else 7, first=[["get", "a"], ["answer", 0]], hosts=["a", "a:81", "s:a"]),
                    limits=lim))
    # two hosts with idle pooled connections while the pool's keep-alive timer runs
    out.append(dict(name="hist-two-idle-hosts", func="history",
                    params=dict(k=4 + (3 if quick else 4), first=[["get", "a"], ["get", "b"], ["answer", 0], ["answer", 1]]),
                    limits=lim))
    return out


def twins(tier):
    return [dict(name="twin", func="twin", params={}, limits={"time_limit": 30, "max_paths": 30})]


REQUIRED_OUTCOMES = ("1req:1conn", "2req:1conn", "2req:2conn")


def bounds(tier):
    return {"steps": "k=5 (quick) / 7; first step GET on host a, second each enabled operation (one job each)",
            "requests": "up to 4 GETs on 2 hosts; one job with three endpoints that share a host name (http://a, http://a:81, https://a)", "time": "up to two advances of virtual time (10 s / 6 s) per history; keepalive_timeout 15 s", "peer": "optional greeting (a complete response before the first request) / answer / answer+surplus (one or two segments) / truncated / Connection: close / unsolicited response (complete or partial) / EOF on any open connection; caller cancel"}

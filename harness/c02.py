"""C02 Wire round trip: what one aiohttp endpoint sends, the other receives.

Real code on both ends: ClientSession / ClientRequest / StreamWriter / ResponseHandler /
HttpResponseParser / ClientResponse  <->  RequestHandler / HttpRequestParser /
web.Request / StreamResponse / Response / StreamWriter; the two in-memory transports are
joined by a pump that forwards bytes in solver-chosen segments.
"""
from __future__ import annotations

import asyncio

from harness.vloop import MemTransport, VLoop, install
from symx import core

PID = "C02"
EXPLANATION = (
    "The solver chooses HTTP version (1.0/1.1), method (GET/HEAD/POST/PUT), request body (none/bytes/async stream/json=/form dict), Expect: 100-continue on/off, a per-request cookie on/off, a handler that reads the body or answers without reading it, "
    "request Connection header (absent/close/keep-alive), response status (200/204/304/404), reason phrase (default / one with inner runs of whitespace), response body kind (empty, "
    "bytes with Content-Length, chunked stream, stream of unknown length), force_close, and where each direction's "
    "bytes are cut into two reads. A real ClientSession talks to a real web.Application through two in-memory transports "
    "joined by a pump. Checked: the handler sees the method, path, query, marker header and body the client sent; the "
    "caller sees the status, marker header and body the handler returned; the exchange completes; both ends agree on "
    "whether the connection stays open; a second request on the same session is answered correctly.")
ASSUMPTIONS = [
    "no compression (zlib is FFI), no kernel sendfile (the in-memory loop has none: FileResponse takes its read/write fallback), no multipart (C19), no TLS/proxies",
    "bodies are short concrete markers (sizes around the 2 KiB / 64 KiB coalescing thresholds are not exercised in this tier)",
    "virtual time; a close of one in-memory transport is delivered to the other side as connection_lost",
]
TRUSTED = ["harness/vloop.py"]


def exchange(ctx, version="1.1", methods=("GET", "HEAD", "POST", "PUT"), kinds=("empty", "bytes", "chunked", "stream"),
             deep=False):
    import glob
    import os

    try:
        return _exchange(ctx, version, methods, kinds, deep)
    finally:
        for fn in glob.glob(f"/var/tmp/c02f*{os.getpid()}.bin"):
            try:
                os.remove(fn)
            except OSError:
                pass


def _exchange(ctx, version, methods, kinds, deep):
    import logging

    import aiohttp
    from aiohttp import web
    from aiohttp.client_proto import ResponseHandler
    from aiohttp.connector import BaseConnector

    logging.disable(logging.CRITICAL)
    loop = install(VLoop())
    method = ctx.pick("method", list(methods))
    req_body = ctx.pick("req_body", ["none", "bytes", "stream", "json", "form"]) if method in ("POST", "PUT") else "none"
    expect100 = ctx.flag("expect_100_continue") if req_body != "none" else False
    send_cookie = ctx.flag("request_cookie")
    # a handler that answers without looking at the request body (the server then drains it itself)
    ignore_body = ctx.flag("handler_ignores_body") if req_body == "bytes" else False
    # quick tier: the newer dimensions (json/form bodies, Expect, cookie) are added to the product, not multiplied into it
    light = not deep and (req_body in ("json", "form") or expect100 or send_cookie or ignore_body)
    conn_hdr = ctx.pick("connection_header", [None] if light else [None, "close", "keep-alive"])
    status = ctx.pick("status", [200] if light else [200, 204, 304, 404])
    kind = ctx.pick("resp_body", list(kinds))
    force_close = False if light else ctx.flag("force_close")
    # a reason phrase and a header value with inner runs of whitespace (to be delivered verbatim)
    reason = ctx.pick("reason", [None, "Quota  exceeded\there"]) if status == 200 else None
    # thorough: response body sizes around the writer's coalescing threshold and the reader's 64 KiB limit
    pad = ctx.pick("resp_body_size", [0, 2047, 2048, 2049, 70000]) if deep and kind != "empty" else \
        (ctx.pick("resp_body_size", [0, 70000]) if kind == "payload" else 0)  # a Payload body is written in 64 KiB pieces
    req_pad = ctx.pick("req_body_size", [0, 2049, 70000]) if deep and req_body != "none" else 0
    seen = []
    seen_cookies = []
    tmpfiles = []

    async def handler(request):
        body = b"" if (ignore_body and len(seen) == 0) else await request.read()
        seen.append((request.method, request.path_qs, request.headers.get("X-Marker"), bytes(body)))
        seen_cookies.append(request.cookies.get("ck"))
        tag = f"resp{len(seen)}".encode()
        if len(seen) == 1 and pad:
            tag = tag + b"." * (pad - len(tag))
        hdrs = {"X-Resp": f"r{len(seen)}", "X-Spaced": "a  b\tc"}
        if len(seen) > 1:
            return web.Response(status=200, body=tag, headers=hdrs)
        if kind == "empty":
            resp = web.Response(status=status, reason=reason, headers=hdrs)
        elif kind == "bytes":
            resp = web.Response(status=status, reason=reason, body=tag, headers=hdrs)
        elif kind == "payload":
            import io

            resp = web.Response(status=status, reason=reason, body=io.BytesIO(tag), headers=hdrs)
        elif kind == "json":
            resp = web.json_response({"tag": tag.decode()}, status=status, reason=reason, headers=hdrs)
        elif kind == "file":
            import tempfile

            f = tempfile.NamedTemporaryFile(prefix="c02f", suffix=f"{__import__('os').getpid()}.bin", dir="/var/tmp", delete=False)
            f.write(tag)
            f.close()
            tmpfiles.append(f.name)
            resp = web.FileResponse(f.name, status=status, reason=reason, headers=hdrs)
        else:
            resp = web.StreamResponse(status=status, reason=reason, headers=hdrs)
            if kind == "chunked" and request.version >= (1, 1):
                resp.enable_chunked_encoding()
            if force_close:
                resp.force_close()
            await resp.prepare(request)
            await resp.write(tag[:2])
            await resp.write(tag[2:])
            await resp.write_eof()
            return resp
        if force_close:
            resp.force_close()
        return resp

    app = web.Application()
    app.router.add_route("*", "/{p:.*}", handler)
    runner = web.AppRunner(app, handle_signals=False, access_log=None)
    asyncio.Task(runner.setup(), loop=loop)
    loop.run_ready()
    links = []  # dict(cproto, ctr, sproto, str, cpos, spos)

    class Conn(BaseConnector):
        async def _create_connection(self, req, traces, timeout):
            cproto = ResponseHandler(loop)
            ctr = MemTransport()
            cproto.connection_made(ctr)
            sproto = runner.server()
            stt = MemTransport()
            sproto.connection_made(stt)
            links.append({"cproto": cproto, "ctr": ctr, "sproto": sproto, "str": stt, "cpos": 0, "spos": 0,
                          "c_lost": False, "s_lost": False})
            return cproto

    async def mk():
        return aiohttp.ClientSession(connector=Conn(limit=4), cookie_jar=aiohttp.DummyCookieJar(),
                                     version=aiohttp.HttpVersion10 if version == "1.0" else aiohttp.HttpVersion11)

    session = loop.run_until_complete(mk())
    # (-2: two bytes before the end of what the client has written so far, i.e. inside a short body)
    cut_c = ctx.pick("cut_request_bytes", [0, 1, 17, 40, 10 ** 6] + ([200, 2100] if deep else []) + ([-2] if req_body == "bytes" else []))
    cut_s = ctx.pick("cut_response_bytes", [0, 1, 17, 40, 90, 10 ** 6] + ([150, 2100, 65600] if deep else []))

    def pump():
        moved = False
        for ln in links:
            new = bytes(ln["ctr"].out)[ln["cpos"]:]
            if new and not ln["s_lost"]:
                ln["cpos"] += len(new)
                cc = cut_c if cut_c >= 0 else max(1, len(new) + cut_c)
                for piece in ([new[:cc], new[cc:]] if 0 < cc < len(new) else [new]):
                    if piece and not ln["str"].closed:
                        ln["sproto"].data_received(piece)
                        loop.run_ready()
                moved = True
            new = bytes(ln["str"].out)[ln["spos"]:]
            if new and not ln["c_lost"]:
                ln["spos"] += len(new)
                for piece in ([new[:cut_s], new[cut_s:]] if 0 < cut_s < len(new) else [new]):
                    if piece and not ln["ctr"].closed:
                        ln["cproto"].data_received(piece)
                        loop.run_ready()
                moved = True
            # closes travel too (held back while the two decisions are being compared)
            if hold_closes["v"]:
                continue
            if ln["str"].closed and not ln["c_lost"] and ln["spos"] >= len(ln["str"].out):
                ln["c_lost"] = True
                if not ln["ctr"].closed:
                    ln["cproto"].connection_lost(None)
                    ln["ctr"].closed = True
                moved = True
            if ln["ctr"].closed and not ln["s_lost"]:
                ln["s_lost"] = True
                if not ln["str"].closed:
                    ln["sproto"].connection_lost(None)
                    ln["str"].closed = True
                moved = True
        return moved

    results = []
    hold_closes = {"v": False}

    req_payload = b"req1" + b"." * max(0, req_pad - 4)

    async def gen():
        yield req_payload[:2]
        yield req_payload[2:]

    async def call(i):
        kw = {"headers": {"X-Marker": f"m{i}"}}
        if conn_hdr and i == 1:
            kw["headers"]["Connection"] = conn_hdr
        m = method if i == 1 else "GET"
        if i == 1 and req_body == "bytes":
            kw["data"] = req_payload
        elif i == 1 and req_body == "stream":
            kw["data"] = gen()
        elif i == 1 and req_body == "json":
            kw["json"] = {"k": "v"}
        elif i == 1 and req_body == "form":
            kw["data"] = {"a": "b c", "d": "\u00e9"}
        if i == 1 and expect100:
            kw["expect100"] = True
        if i == 1 and send_cookie:
            kw["cookies"] = {"ck": "cv"}
        try:
            async with session.request(m, f"http://h/p{i}?q={i}", **kw) as resp:
                body = await resp.read()
                results.append((i, resp.status, resp.headers.get("X-Resp"), bytes(body), resp.reason,
                                resp.headers.get("X-Spaced")))
        except Exception as e:  # noqa: BLE001
            results.append((i, "error", type(e).__name__, None, None, None))

    def fail(key, **kw):
        info = {"key": key, "version": version, "method": method, "req_body": req_body, "connection": conn_hdr,
                "status": status, "reason": reason, "resp_body": kind, "expect100": expect100, "cookie": send_cookie, "handler_ignores_body": ignore_body, "force_close": force_close, "cuts": [cut_c, cut_s],
                "seen": [[str(x)[:60] for x in s] for s in seen], "results": [[str(x)[:60] for x in r] for r in results]}
        info.update(kw)
        if links:
            info["wire_s2c"] = bytes(links[0]["str"].out).decode("latin1")[:400]
        return False, "inv:" + key, info

    def run_call(i):
        t = asyncio.Task(call(i), loop=loop)
        loop.run_ready()
        for _ in range(60):
            if t.done():
                break
            if not pump():
                loop.run_ready()
                if t.done():
                    break
                loop.advance(0.5)
                if not pump() and not t.done() and _ > 20:
                    break
        return t

    hold_closes["v"] = True
    t1 = run_call(1)
    if not t1.done():
        # maybe it waits for the peer's close (close-delimited body): let closes through
        hold_closes["v"] = False
        for _ in range(10):
            if t1.done() or not pump():
                break
            loop.run_ready()
        loop.run_ready()
        hold_closes["v"] = True
    if not t1.done():
        t1.cancel()
        loop.run_ready()
        # (the client asks for keep-alive on HTTP/1.0 by default, so 'absent' behaves like 'keep-alive')
        stream10 = version == "1.0" and kind in ("chunked", "stream") and conn_hdr != "close" and not force_close \
            and status not in (204, 304) and method != "HEAD" and links and not links[0]["str"].closed
        return fail("exchange-never-completes" + (":http10-keepalive-stream-unknown-length" if stream10 else ""))
    pump()
    r1 = [r for r in results if r[0] == 1][0]
    if r1[1] == "error":
        return fail("exchange-fails:" + str(r1[2]))
    # ---- request as seen by the handler
    want_body = b"" if ignore_body else req_payload if req_body in ("bytes", "stream") else \
        (b'{"k": "v"}' if req_body == "json" else (b"a=b+c&d=%C3%A9" if req_body == "form" else b""))
    if seen and req_body in ("json", "form"):
        # compare what the body says, not how this client version happens to spell it
        import json as _json
        from urllib.parse import parse_qs

        got_b = bytes(seen[0][3])
        try:
            same = (_json.loads(got_b) == {"k": "v"}) if req_body == "json" else \
                (parse_qs(got_b.decode("ascii"), keep_blank_values=True, encoding="utf-8") == {"a": ["b c"], "d": ["\u00e9"]})
        except Exception:  # noqa: BLE001
            same = False
        if same:
            want_body = got_b
    if not seen or seen[0] != (method, "/p1?q=1", "m1", want_body):
        return fail("request-altered-in-transit")
    if seen_cookies[0] != ("cv" if send_cookie else None):
        return fail("request-cookie-altered-in-transit", got=repr(seen_cookies[0]))
    # ---- response as seen by the caller
    bodyless = method == "HEAD" or status in (204, 304)
    want_resp_body = b"" if (bodyless or kind == "empty") else (b"resp1" + b"." * max(0, pad - 5))
    if kind == "json" and not bodyless:
        want_resp_body = b'{"tag": "' + want_resp_body + b'"}' 
    if r1[1] != status or r1[2] != "r1":
        return fail("response-status-or-headers-altered")
    if kind == "json" and not bodyless:
        import json as _json

        try:
            if _json.loads(r1[3]) == _json.loads(want_resp_body):
                want_resp_body = r1[3]
        except Exception:  # noqa: BLE001
            pass
    if r1[3] != want_resp_body:
        return fail("response-body-altered", got=str(r1[3])[:80], got_len=len(r1[3]), want_len=len(want_resp_body))
    if reason is not None and r1[4] != reason:
        return fail("response-reason-altered", got=repr(r1[4]), sent=repr(reason))
    if r1[5] != "a  b\tc":
        return fail("response-header-value-altered", got=repr(r1[5]))
    # ---- agreement on connection persistence: each side's own decision, before closes propagate
    ln = links[0]
    loop.run_ready()
    server_keeps = not ln["str"].closed
    client_keeps = any(conns for conns in session.connector._conns.values()) and not ln["ctr"].closed
    # (a client that got its final answer before it had sent the body - the handler did not ask for it - has
    # to drop the connection: the server cannot know yet and finds out by the close)
    body_abandoned = ignore_body and expect100 and not client_keeps
    if server_keeps != client_keeps and not ln["c_lost"] and not ln["s_lost"] and not body_abandoned:
        wire = bytes(ln["str"].out).lower()
        framed = b"content-length:" in wire or b"transfer-encoding:" in wire
        shape = f"http{version}:" + ("HEAD" if method == "HEAD" else str(status)) + (":framed" if framed else ":no-length")
        return fail("ends-disagree-on-keep-alive:server-" + ("keeps" if server_keeps else "closes") +
                    ":client-" + ("keeps" if client_keeps else "closes") + ":" + shape)
    hold_closes["v"] = False
    pump()
    # ---- a second exchange on the same session
    t2 = run_call(2)
    if not t2.done():
        t2.cancel()
        loop.run_ready()
        return fail("second-exchange-never-completes", reused=len(links) == 1)
    r2 = [r for r in results if r[0] == 2][0]
    if r2[1] != 200 or r2[3] != b"resp2" or r2[2] != "r2":
        return fail("second-exchange-wrong", reused=len(links) == 1)
    if len(seen) != 2 or seen[1] != ("GET", "/p2?q=2", "m2", b""):
        return fail("second-request-altered")
    if loop.exc:
        return fail("loop-exception-handler-called", exc=str(loop.exc[0].get("exception"))[:200])
    ct = asyncio.Task(session.close(), loop=loop)
    loop.run_ready()
    return True, f"{version}:{'reused' if len(links) == 1 else 'new-conn'}", None


def twin(ctx):
    r = exchange(ctx, "1.1", methods=["GET"], kinds=["bytes"])
    return False, r[1], {"key": "twin"}


def jobs(tier):
    lim = {"time_limit": 110 if tier == "quick" else 1200}
    out = []
    for v in ("1.1", "1.0"):
        for m in ("GET", "HEAD", "POST", "PUT"):
            for k in ("empty", "bytes", "chunked", "stream", "json", "file", "payload"):
                out.append(dict(name=f"x-{v}-{m}-{k}", func="exchange",
                                params=dict(version=v, methods=[m], kinds=[k], deep=tier != "quick"), limits=lim))
    return out


def twins(tier):
    return [dict(name="twin", func="twin", params={}, limits={"time_limit": 30, "max_paths": 30})]


REQUIRED_OUTCOMES = ("1.1:reused", "1.1:new-conn", "1.0:")


def bounds(tier):
    return {"product": "version {1.0,1.1} x method {GET,HEAD,POST,PUT} x request body {none, bytes, async stream, json, form} x Expect: 100-continue x request cookie x Connection {absent, close, keep-alive} x status {200,204,304,404} x response body {empty, bytes, chunked stream, stream of unknown length, json, file, Payload} x force_close x 5 request cuts x 6 response cuts - complete",
            "second_request": "a GET on the same session after the first exchange",
            "thorough": "additionally response body sizes {5, 2047, 2048, 2049, 70000}, request body sizes {4, 2049, 70000}, 7 request cuts, 9 response cuts; every job runs the full product (incl. Expect / cookie / json / form)"}

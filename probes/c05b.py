import asyncio, sys, logging, traceback
sys.path.insert(0, "/repo"); sys.path.insert(0, __import__("os").path.dirname(__import__("os").path.abspath(__file__)))
from vloop import VLoop, MemTransport
from aiohttp import web
loop = VLoop(); asyncio._set_running_loop(loop)
async def h(request): return web.Response(text="ok")
app = web.Application(); app.router.add_get("/", h)
runner = web.AppRunner(app)
t = loop.create_task(runner.setup()); loop.run_ready()
proto = runner.server(); tr = MemTransport(); proto.connection_made(tr); loop.run_ready()
th = proto._task_handler
proto.data_received(b"GET http://a:b/ HTTP/1.1\r\nHost: a\r\n\r\n"); loop.run_ready()
print("out", bytes(tr.out)[:40], "closed", tr.closed, "task done", th.done())
if th.done():
    try: th.result()
    except BaseException as e: traceback.print_exception(e, limit=-12)

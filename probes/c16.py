import sys, time
sys.path.insert(0, "/repo")
from unittest import mock
from http.cookies import SimpleCookie
from yarl import URL
from aiohttp import CookieJar
import asyncio
async def main():
    # history: two host-only cookies named "a" on different paths; first expires
    now = [1000.0]
    with mock.patch("time.time", lambda: now[0]):
        jar = CookieJar()
        jar.update_cookies(SimpleCookie("a=1; Path=/x; Max-Age=1"), URL("http://example.com/x"))
        jar.update_cookies(SimpleCookie("a=2; Path=/y"), URL("http://example.com/y"))
        print("host_only", jar.host_only_cookies)
        print("t0 sub.example.com/y ->", dict((k, v.value) for k, v in jar.filter_cookies(URL("http://sub.example.com/y")).items()))
        now[0] += 5
        print("t5 example.com/y     ->", dict((k, v.value) for k, v in jar.filter_cookies(URL("http://example.com/y")).items()))
        print("t5 sub.example.com/y ->", dict((k, v.value) for k, v in jar.filter_cookies(URL("http://sub.example.com/y")).items()), "host_only", jar.host_only_cookies)
        # 2nd: host-only then domain cookie same name, other path
        jar2 = CookieJar()
        jar2.update_cookies(SimpleCookie("s=1; Path=/p"), URL("http://example.com/p"))
        jar2.update_cookies(SimpleCookie("s=2; Path=/q; Domain=example.com"), URL("http://example.com/q"))
        print("domain cookie to sub (/q) ->", dict((k, v.value) for k, v in jar2.filter_cookies(URL("http://sub.example.com/q")).items()), "(RFC: s=2)")
asyncio.run(main())

import z3, time
F = z3.Float64()
RNE = z3.RNE()
now, tmo = z3.FP("now", F), z3.FP("tmo", F)
s = z3.fpAdd(RNE, now, tmo)
w = z3.fpRoundToIntegral(z3.RTP(), s)
pre = z3.And(z3.Not(z3.fpIsNaN(now)), z3.Not(z3.fpIsInf(now)), z3.fpGEQ(now, z3.FPVal(0.0, F)), z3.fpLEQ(now, z3.FPVal(2.0**52, F)),
             z3.fpGT(tmo, z3.FPVal(0.0, F)), z3.fpLEQ(tmo, z3.FPVal(2.0**31, F)))
def prove(name, claim, to=120000):
    sol = z3.Solver(); sol.set("timeout", to)
    sol.add(pre, z3.Not(claim))
    t = time.time(); r = sol.check()
    print(name, "holds" if r == z3.unsat else r, round(time.time()-t, 1), sol.model() if r == z3.sat else "")
prove("w>=s", z3.fpGEQ(w, s))
prove("w<=s+1", z3.fpLEQ(w, z3.fpAdd(RNE, s, z3.FPVal(1.0, F))))
prove("w-now<=tmo+1 (fp)", z3.fpLEQ(z3.fpSub(RNE, w, now), z3.fpAdd(RNE, tmo, z3.FPVal(1.0, F))))
prove("s>=now", z3.fpGEQ(s, now))

"""Probe: AST call-rewriting import hook for aiohttp.* loaded from /repo."""
import ast, sys, importlib.abc, importlib.machinery, importlib.util, os

SKIP_FUNCS = {"super", "locals", "globals", "vars", "eval", "exec", "__import__", "isinstance", "issubclass", "type", "TypeVar", "cast", "overload"}

class SX:
    ncalls = 0
    entered = set()
    @staticmethod
    def call(f, /, *a, **k):
        SX.ncalls += 1
        return f(*a, **k) if k else f(*a)
    @staticmethod
    def callm(o, name, /, *a, **k):
        SX.ncalls += 1
        m = getattr(o, name)
        return m(*a, **k) if k else m(*a)
    @staticmethod
    def contains(x, c):
        return x in c
    @staticmethod
    def enter(q):
        SX.entered.add(q)

class T(ast.NodeTransformer):
    def __init__(self, modname):
        self.modname = modname
        self.stack = []
    def visit_Call(self, node):
        self.generic_visit(node)
        if any(isinstance(a, ast.Starred) for a in node.args) and False:
            return node
        f = node.func
        if isinstance(f, ast.Name) and f.id in SKIP_FUNCS:
            return node
        if isinstance(f, ast.Attribute) and isinstance(f.value, ast.Call) and isinstance(f.value.func, ast.Name) and f.value.func.id == "super":
            return node
        if isinstance(f, ast.Attribute):
            # private name mangling: leave self.__x calls alone
            if f.attr.startswith("__") and not f.attr.endswith("__"):
                return node
            new = ast.Call(func=ast.Attribute(value=ast.Name("_sx_", ast.Load()), attr="callm", ctx=ast.Load()),
                           args=[f.value, ast.Constant(f.attr)] + node.args, keywords=node.keywords)
        else:
            new = ast.Call(func=ast.Attribute(value=ast.Name("_sx_", ast.Load()), attr="call", ctx=ast.Load()),
                           args=[f] + node.args, keywords=node.keywords)
        return ast.copy_location(new, node)
    def visit_Compare(self, node):
        self.generic_visit(node)
        if len(node.ops) == 1 and isinstance(node.ops[0], (ast.In, ast.NotIn)):
            c = ast.Call(func=ast.Attribute(value=ast.Name("_sx_", ast.Load()), attr="contains", ctx=ast.Load()),
                         args=[node.left, node.comparators[0]], keywords=[])
            if isinstance(node.ops[0], ast.NotIn):
                c = ast.UnaryOp(op=ast.Not(), operand=c)
            return ast.copy_location(c, node)
        return node
    def _fn(self, node):
        self.stack.append(node.name)
        # don't rewrite decorators / defaults / annotations
        node.body = [self.visit(s) for s in node.body]
        q = self.modname + ":" + ".".join(self.stack)
        probe = ast.Expr(ast.Call(func=ast.Attribute(value=ast.Name("_sx_", ast.Load()), attr="enter", ctx=ast.Load()), args=[ast.Constant(q)], keywords=[]))
        # keep docstring first
        i = 1 if (node.body and isinstance(node.body[0], ast.Expr) and isinstance(getattr(node.body[0], "value", None), ast.Constant) and isinstance(node.body[0].value.value, str)) else 0
        node.body.insert(i, probe)
        self.stack.pop()
        return node
    visit_FunctionDef = _fn
    visit_AsyncFunctionDef = _fn
    def visit_ClassDef(self, node):
        self.stack.append(node.name)
        node.body = [self.visit(s) if isinstance(s, (ast.FunctionDef, ast.AsyncFunctionDef, ast.ClassDef)) else s for s in node.body]
        self.stack.pop()
        return node
    def visit_Module(self, node):
        # only rewrite inside functions: module-level code (regex compile, class bodies) left native
        node.body = [self.visit(s) if isinstance(s, (ast.FunctionDef, ast.AsyncFunctionDef, ast.ClassDef)) else s for s in node.body]
        return node

class Loader(importlib.machinery.SourceFileLoader):
    def source_to_code(self, data, path, *, _optimize=-1):
        tree = ast.parse(data, path)
        tree = T(self.name).visit(tree)
        ast.fix_missing_locations(tree)
        return compile(tree, path, "exec", dont_inherit=True, optimize=_optimize)
    def exec_module(self, module):
        module.__dict__["_sx_"] = SX
        super().exec_module(module)
    def get_code(self, fullname):
        # bypass .pyc cache
        path = self.get_filename(fullname)
        return self.source_to_code(self.get_data(path), path)

class Finder(importlib.abc.MetaPathFinder):
    def find_spec(self, fullname, path, target=None):
        if fullname != "aiohttp" and not fullname.startswith("aiohttp."):
            return None
        parts = fullname.split(".")
        base = os.path.join("/repo", *parts)
        if os.path.isdir(base):
            fn = os.path.join(base, "__init__.py")
            return importlib.util.spec_from_file_location(fullname, fn, loader=Loader(fullname, fn), submodule_search_locations=[base])
        fn = base + ".py"
        if os.path.exists(fn):
            return importlib.util.spec_from_file_location(fullname, fn, loader=Loader(fullname, fn))
        return None

def install():
    sys.meta_path.insert(0, Finder())

import sys, types, importlib, time
sys.path.insert(0, "/repo")
import z3
from symx import *
from symx import _e
import aiohttp._websocket.reader_py as orig
from aiohttp._websocket.models import WebSocketError

# --- instrumented copy of reader_py from current source
src = open(orig.__file__).read()
src = src.replace('b"".join(', '_symx_join(')
mod = types.ModuleType("aiohttp._websocket.reader_py_symx")
mod.__package__ = "aiohttp._websocket"
mod.__file__ = orig.__file__
def _symx_join(parts):
    out = ()
    for p in parts:
        out += SBytes(p).b if isinstance(p, bytes) else p.b
    return SBytes(out)
class SByteArray(SBytes):
    pass
def _bytearray(x=()):
    return SByteArray(x.b if isinstance(x, SBytes) else x)
def _bytes(x=()):
    return SBytes(x.b if isinstance(x, SBytes) else x)
def _mask(mask, data):
    out = []
    for i, x in enumerate(data.b):
        m = mask[i % 4]
        out.append(SInt(z3.BV2Int(z3.Int2BV(_e(x), 8) ^ z3.Int2BV(_e(m), 8))))
    data.b = tuple(out)
mod.__dict__.update(_symx_join=_symx_join)
exec(compile(src, orig.__file__, "exec"), mod.__dict__)
mod.bytes = SBytes
mod.bytearray = SByteArray
def unpack_len3(data, pos):
    v = 0
    for i in range(8):
        v = v * 256 + data[pos + i]
    return (v,)
def unpack_close(data):
    return (data[0] * 256 + data[1],)
mod.UNPACK_LEN3 = unpack_len3
mod.websocket_mask = _mask
mod.UNPACK_CLOSE_CODE = unpack_close

class Proto:
    _reading_paused = False
    def pause_reading(self): self._reading_paused = True
    def resume_reading(self): self._reading_paused = False
class Q:
    def __init__(self):
        self._protocol = Proto(); self.msgs = []; self.exc = None
    def feed_data(self, m): self.msgs.append(m)
    def set_exception(self, exc, cause=None): self.exc = exc
    def feed_eof(self): pass

def run(chunks, max_size=16):
    q = Q()
    r = mod.WebSocketReader(q, max_size, False, False)
    for c in chunks:
        r.feed_data(c)
    code = q.exc.code if isinstance(q.exc, WebSocketError) else (None if q.exc is None else repr(q.exc))
    out = []
    for m in q.msgs:
        d = m.data
        out.append((int(m.type), d))
    return out, code

def eq_outputs(a, b):
    (ma, ca), (mb, cb) = a, b
    if ca != cb or len(ma) != len(mb):
        return False
    conj = []
    for (ta, da), (tb, db) in zip(ma, mb):
        if ta != tb: return False
        if isinstance(da, (SBytes, bytes)) or isinstance(db, (SBytes, bytes)):
            da = da if isinstance(da, SBytes) else SBytes(da)
            db = db if isinstance(db, SBytes) else SBytes(db)
            if len(da) != len(db): return False
            conj += [_e(x) == _e(y) for x, y in zip(da.b, db.b)]
        else:
            conj.append(_e(da) == _e(db) if isinstance(da, (SInt,)) or isinstance(db, SInt) else z3.BoolVal(da == db))
    return z3.And(conj + [z3.BoolVal(True)])

N = int(sys.argv[1]); CUT = int(sys.argv[2])
def setup(ctx):
    bs = [ctx.fresh_int(f"b{i}", 0, 255) for i in range(N)]
    return SBytes(bs)
def prop(ctx, data):
    a = run([data])
    b = run([data[:CUT], data[CUT:]])
    return eq_outputs(a, b)
import faulthandler; faulthandler.dump_traceback_later(40, exit=True)
print(explore(prop, setup))

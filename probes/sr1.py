"""Probe: symbolic op scripts over the real StreamReader on VLoop (C08 shape)."""
import sys, re, time, asyncio, warnings
sys.path.insert(0, __import__("os").path.dirname(__import__("os").path.abspath(__file__))); sys.path.insert(0, __import__("os").path.dirname(__import__("os").path.abspath(__file__)))
warnings.simplefilter("ignore")
import z3, sx2
from sx2 import *
import sxhook
def callm(o, name, /, *a, **k):
    if isinstance(o, bytes) and name == "join":
        parts = list(a[0])
        if any(isinstance(p, SSeq) for p in parts):
            out = ()
            for p in parts: out += SBytes(p).b
            return SBytes(out)
    m = getattr(o, name)
    return m(*a, **k) if k else m(*a)
sxhook.SX.callm = staticmethod(callm)
sxhook.install()
sys.path.insert(0, "/repo")
from vloop import VLoop
from aiohttp.streams import StreamReader
from aiohttp.base_protocol import BaseProtocol

K = int(sys.argv[1]); LIMIT = int(sys.argv[2]) if len(sys.argv) > 2 else 2
class Tr:
    def __init__(self): self.paused = False
    def pause_reading(self): self.paused = True
    def resume_reading(self): self.paused = False
class Proto(BaseProtocol):
    def data_received(self, d): pass

OPS = ["feed1", "feed2", "eof", "read1", "read2", "readany", "readline", "readchunk", "begin", "end"]
def setup(ctx):
    ops = [ctx.fresh_int(f"op{i}", 0, len(OPS) - 1) for i in range(K)]
    data = [ctx.fresh_int(f"d{i}", 0, 255) for i in range(2 * K)]
    return ops, data

def choose(ctx, v, n):
    for i in range(n - 1):
        if ctx.fork(v == i): return i
    return n - 1

def prop(ctx, inp):
    ops, data = inp
    loop = VLoop(); asyncio._set_running_loop(loop)
    proto = Proto(loop); proto._upgraded = True  # no parser to pause in this unit
    tr = Tr(); proto.transport = tr
    sr = StreamReader(proto, LIMIT, loop=loop)
    fed = (); got = (); di = 0; eof = False; pending = None; tag = []
    def collect(t):
        nonlocal got, pending
        pending = None
        if t.cancelled() or t.exception() is not None: return
        r = t.result()
        if isinstance(r, tuple): r = r[0]
        got += SBytes(r).b
    for v in ops:
        op = OPS[choose(ctx, v, len(OPS))]
        tag.append(op)
        if op in ("feed1", "feed2"):
            if eof: continue
            n = 1 if op == "feed1" else 2
            chunk = SBytes(data[di:di + n]); di += n
            fed += chunk.b; sr.feed_data(chunk)
        elif op == "eof":
            if not eof: sr.feed_eof(); eof = True
        elif op == "begin":
            if not eof and not sr.total_bytes: sr.begin_http_chunk_receiving()
        elif op == "end":
            if not eof and sr._http_chunk_splits is not None: sr.end_http_chunk_receiving()
        else:
            if pending is not None: continue
            coro = {"read1": lambda: sr.read(1), "read2": lambda: sr.read(2), "readany": sr.readany,
                    "readline": sr.readline, "readchunk": sr.readchunk}[op]()
            pending = asyncio.Task(coro, loop=loop); pending.add_done_callback(collect)
        loop.run_ready()
        # invariant: a reader blocked on an empty buffer is never left with the transport paused
        if pending is not None and not sr._buffer and tr.paused:
            return False, "stuck"
    # conservation: got is a prefix of fed
    if len(got) > len(fed): return False, "dup"
    return conj([elem_eq(a, b) for a, b in zip(got, fed)]), "ok"
res = explore(prop, setup, 900)
print(K, LIMIT, res[:4], res[4])

import sys, time, re
sys.path.insert(0, "/repo")
import z3
import re._parser as sp
import re._constants as sc
from aiohttp import http_parser as hp, http_writer as hw

def cls_items(items, flags):
    alts = []
    neg = False
    for op, av in items:
        if op is sc.NEGATE: neg = True
        elif op is sc.LITERAL: alts.append(z3.Re(chr(av)))
        elif op is sc.RANGE: alts.append(z3.Range(chr(av[0]), chr(av[1])))
        elif op is sc.CATEGORY:
            if av is sc.CATEGORY_DIGIT:
                assert flags & re.ASCII
                alts.append(z3.Range("0", "9"))
            else: raise NotImplementedError(av)
        else: raise NotImplementedError(op)
    r = z3.Union(*alts) if len(alts) > 1 else alts[0]
    if neg:
        r = z3.Intersect(z3.AllChar(z3.ReSort(z3.StringSort())), z3.Complement(r))
    return r

def tr(parsed, flags):
    parts = []
    for op, av in parsed:
        if op is sc.LITERAL: parts.append(z3.Re(chr(av)))
        elif op is sc.IN: parts.append(cls_items(av, flags))
        elif op is sc.MAX_REPEAT:
            lo, hi, sub = av
            s = tr(sub, flags)
            if hi is sc.MAXREPEAT:
                parts.append(z3.Concat(*([s]*lo + [z3.Star(s)])) if lo else z3.Star(s)) if lo != 1 else parts.append(z3.Plus(s))
            else:
                parts.append(z3.Loop(s, lo, hi))
        elif op is sc.SUBPATTERN:
            parts.append(tr(av[3], flags))
        else: raise NotImplementedError(op)
    if not parts: return z3.Re("")
    return z3.Concat(*parts) if len(parts) > 1 else parts[0]

def to_z3(p):
    return tr(sp.parse(p.pattern if isinstance(p.pattern, str) else p.pattern.decode('latin1'), p.flags), p.flags)

TCHAR = "!#$%&'*+-.^_`|~"
ref_token = z3.Plus(z3.Union(z3.Range("0","9"), z3.Range("a","z"), z3.Range("A","Z"), *[z3.Re(c) for c in TCHAR]))
x = z3.String("x")
def equiv(a, b, name):
    s = z3.Solver(); s.set("timeout", 60000)
    s.add(z3.Xor(z3.InRe(x, a), z3.InRe(x, b)))
    t=time.time(); r = s.check(); print(name, r, round(time.time()-t,3), s.model() if r==z3.sat else "")
equiv(to_z3(hp.TOKENRE), ref_token, "TOKENRE")
equiv(to_z3(hp.DIGITS), z3.Plus(z3.Range("0","9")), "DIGITS")
equiv(to_z3(hp.HEXDIGITS), z3.Plus(z3.Union(z3.Range("0","9"), z3.Range("a","f"), z3.Range("A","F"))), "HEX")
equiv(to_z3(hp.VERSRE), z3.Concat(z3.Re("HTTP/"), z3.Range("0","9"), z3.Re("."), z3.Range("0","9")), "VERS")
# mutated
equiv(to_z3(re.compile(r"[0-9A-Za-z!#$%&'*+\-.^_`|~ ]+")), ref_token, "TOKEN-mut")

import asyncio, sys
sys.path.insert(0, "/repo")
from aiohttp.http_parser import HttpRequestParser
class P:
    def pause_reading(self): pass
    def resume_reading(self, resume_parser=True): pass
    transport=None
for t in [b"http://[", b"http://a:b/", b"//[::1", b"http://a:99999999/", b"http://%zz/", b"*", b"a", b"http://\xff/", b"/\xff", b"http://a b/"]:
    p = HttpRequestParser(P(), None, 2**16)
    try:
        r = p.feed_data(b"GET " + t + b" HTTP/1.1\r\nHost: a\r\n\r\n")
        print(t, "OK", r[0][0][0].url if r[0] else r)
    except Exception as e:
        print(t, type(e).__mro__[:3], e)

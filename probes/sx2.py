"""Probe 2: symbolic bytes/str with fork-on-position, regex as DP formula, model-guided forks."""
import time, re
import re._parser as sp
import re._constants as sc
import z3


class Abort(BaseException):
    pass


class Ctx:
    cur = None

    def __init__(self, prefix):
        self.solver = z3.Solver()
        self.prefix = prefix
        self.trail = []
        self.pos = 0
        self.n_checks = 0
        self.vars = {}
        self.model = None

    def fresh_int(self, name, lo, hi):
        v = z3.Int(name)
        self.vars[name] = v
        self.solver.add(v >= lo, v <= hi)
        self.model = None
        return v

    def _model(self):
        if self.model is None:
            self.n_checks += 1
            if self.solver.check() != z3.sat:
                raise Abort()
            self.model = self.solver.model()
        return self.model

    def fork(self, expr):
        if isinstance(expr, bool):
            return expr
        expr = z3.simplify(expr)
        if z3.is_true(expr):
            return True
        if z3.is_false(expr):
            return False
        if self.pos < len(self.prefix):
            taken = self.prefix[self.pos]
            self.pos += 1
            self.solver.add(expr if taken else z3.Not(expr))
            self.model = None
            self.trail.append((taken, False))
            return taken
        m = self._model()
        taken = z3.is_true(m.eval(expr, model_completion=True))
        other = z3.Not(expr) if taken else expr
        self.n_checks += 1
        self.solver.push()
        self.solver.add(other)
        other_ok = self.solver.check() == z3.sat
        self.solver.pop()
        self.solver.add(expr if taken else z3.Not(expr))
        self.trail.append((taken, other_ok))
        self.pos += 1
        return taken


def explore(fn, setup, limit_s=600):
    stack = [[]]
    paths = nchecks = 0
    cex = None
    t0 = time.time()
    outcomes = {}
    while stack:
        if time.time() - t0 > limit_s:
            return paths, nchecks, time.time() - t0, "TIMEOUT", outcomes
        prefix = stack.pop()
        ctx = Ctx(prefix)
        Ctx.cur = ctx
        inputs = setup(ctx)
        try:
            prop, tag = fn(ctx, inputs)
        except Abort:
            continue
        paths += 1
        outcomes[tag] = outcomes.get(tag, 0) + 1
        dec = [t for (t, _) in ctx.trail]
        for i in range(len(prefix), len(ctx.trail)):
            taken, other = ctx.trail[i]
            if other:
                stack.append(dec[:i] + [not taken])
        nchecks += ctx.n_checks
        if prop is True:
            continue
        if isinstance(prop, SBool):
            prop = prop.e
        if prop is False:
            prop = z3.BoolVal(False)
        ctx.solver.add(z3.Not(prop))
        nchecks += 1
        if ctx.solver.check() == z3.sat:
            m = ctx.solver.model()
            cex = {k: m.eval(v, model_completion=True) for k, v in ctx.vars.items()}
            break
    return paths, nchecks, time.time() - t0, cex, outcomes


def E(x):
    return x.e if isinstance(x, (SInt, SBool)) else x


class SBool:
    def __init__(self, e):
        self.e = e

    def __bool__(self):
        return Ctx.cur.fork(self.e)


def mkbool(e):
    if isinstance(e, bool):
        return e
    e = z3.simplify(e)
    if z3.is_true(e):
        return True
    if z3.is_false(e):
        return False
    return SBool(e)


class SInt:
    def __init__(self, e):
        self.e = e

    def __eq__(self, o): return mkbool(self.e == E(o))
    def __ne__(self, o): return mkbool(self.e != E(o))
    def __lt__(self, o): return mkbool(self.e < E(o))
    def __le__(self, o): return mkbool(self.e <= E(o))
    def __gt__(self, o): return mkbool(self.e > E(o))
    def __ge__(self, o): return mkbool(self.e >= E(o))
    def __add__(self, o): return SInt(self.e + E(o))
    __radd__ = __add__
    def __sub__(self, o): return SInt(self.e - E(o))
    def __rsub__(self, o): return SInt(E(o) - self.e)
    def __hash__(self): raise TypeError("hash of symbolic")

    def __index__(self):
        ctx = Ctx.cur
        while True:
            v = ctx._model().eval(self.e, model_completion=True).as_long()
            if ctx.fork(self.e == v):
                return v
    __int__ = __index__


def elem_eq(a, b):
    if isinstance(a, int) and isinstance(b, int):
        return a == b
    return E(a) == E(b)


def conj(xs):
    xs = [x for x in xs if x is not True]
    if any(x is False for x in xs):
        return False
    if not xs:
        return True
    return z3.And(xs) if len(xs) > 1 else xs[0]


def disj(xs):
    xs = [x for x in xs if x is not False]
    if any(x is True for x in xs):
        return True
    if not xs:
        return False
    return z3.Or(xs) if len(xs) > 1 else xs[0]


class SSeq:
    """concrete length, elements int | z3 Int expr"""
    native = None

    def __init__(self, elems=()):
        if isinstance(elems, SSeq):
            elems = elems.b
        elif isinstance(elems, (bytes, bytearray)):
            elems = tuple(elems)
        elif isinstance(elems, str):
            elems = tuple(ord(c) for c in elems)
        self.b = tuple(elems)

    def _coerce(self, o):
        return o if isinstance(o, SSeq) else type(self)(o)

    def __len__(self): return len(self.b)
    def __bool__(self): return len(self.b) > 0
    def __iter__(self): return (x if isinstance(x, int) else SInt(x) for x in self.b)

    def __getitem__(self, i):
        if isinstance(i, slice):
            return type(self)(self.b[i])
        if isinstance(i, SInt):
            i = int(i)
        x = self.b[i]
        return x if isinstance(x, int) else SInt(x)

    def __add__(self, o): return type(self)(self.b + self._coerce(o).b)
    def __radd__(self, o): return type(self)(self._coerce(o).b + self.b)

    def eq_formula(self, o):
        o = self._coerce(o)
        if len(o.b) != len(self.b):
            return False
        return conj([elem_eq(a, b) for a, b in zip(self.b, o.b)])

    def __eq__(self, o):
        if not isinstance(o, (SSeq, bytes, str)): return NotImplemented
        return mkbool(self.eq_formula(o))
    def __ne__(self, o):
        r = self.eq_formula(o)
        return mkbool(z3.Not(r) if not isinstance(r, bool) else (not r))
    __hash__ = None

    def _match_at(self, sub, i):
        return conj([elem_eq(self.b[i + j], sub.b[j]) for j in range(len(sub.b))])

    def find(self, sub, start=0):
        """fork on first position"""
        sub = self._coerce(sub)
        n, m = len(self.b), len(sub.b)
        ctx = Ctx.cur
        for i in range(start, n - m + 1):
            if ctx.fork(self._match_at(sub, i)):
                return i
        return -1

    def __contains__(self, sub):
        if isinstance(sub, (int, SInt)):
            return Ctx.cur.fork(disj([elem_eq(x, sub) for x in self.b]))
        sub = self._coerce(sub)
        n, m = len(self.b), len(sub.b)
        return Ctx.cur.fork(disj([self._match_at(sub, i) for i in range(0, n - m + 1)]))

    def split(self, sep, maxsplit=-1):
        assert maxsplit == 1
        i = self.find(sep)
        if i < 0:
            return [self]
        return [self[:i], self[i + len(sep):]]

    def _inset(self, x, chars):
        return disj([elem_eq(x, c) for c in self._coerce(chars).b])

    def lstrip(self, chars):
        ctx = Ctx.cur
        i = 0
        while i < len(self.b) and ctx.fork(self._inset(self.b[i], chars)):
            i += 1
        return self[i:]

    def rstrip(self, chars):
        ctx = Ctx.cur
        j = len(self.b)
        while j > 0 and ctx.fork(self._inset(self.b[j - 1], chars)):
            j -= 1
        return self[:j]

    def strip(self, chars):
        return self.lstrip(chars).rstrip(chars)


class SBytes(SSeq):
    def decode(self, enc="utf-8", errors="strict"):
        # domain restricted to 0..127 U 248..255 (never part of valid UTF-8): bytewise
        assert errors == "surrogateescape"
        out = []
        for x in self.b:
            if isinstance(x, int):
                out.append(x if x < 128 else 0xDC00 + x)
            else:
                out.append(z3.If(x < 128, x, 0xDC00 + x))
        return SStr(out)


class SStr(SSeq):
    def lower(self):
        out = []
        for x in self.b:
            if isinstance(x, int):
                out.append(ord(chr(x).lower()) if len(chr(x).lower()) == 1 else x)
            else:
                out.append(z3.If(z3.And(x >= 65, x <= 90), x + 32, x))  # ASCII domain + surrogates
        return SStr(out)


# ---- regex DP over concrete positions
def charclass(items, x, flags):
    alts = []
    neg = False
    for op, av in items:
        if op is sc.NEGATE: neg = True
        elif op is sc.LITERAL: alts.append(elem_eq(x, av))
        elif op is sc.RANGE:
            alts.append((av[0] <= x <= av[1]) if isinstance(x, int) else z3.And(x >= av[0], x <= av[1]))
        elif op is sc.CATEGORY and av is sc.CATEGORY_DIGIT:
            assert flags & re.ASCII
            alts.append((48 <= x <= 57) if isinstance(x, int) else z3.And(x >= 48, x <= 57))
        else:
            raise NotImplementedError((op, av))
    r = disj(alts)
    if neg:
        r = (not r) if isinstance(r, bool) else z3.Not(r)
    return r


def re_simple_class_plus(pattern):
    """return (items, lo) if pattern is a single char class repeated lo..inf, else None"""
    p = sp.parse(pattern.pattern if isinstance(pattern.pattern, str) else pattern.pattern.decode("latin1"), pattern.flags)
    if len(p) == 1 and p[0][0] is sc.MAX_REPEAT:
        lo, hi, sub = p[0][1]
        if hi is sc.MAXREPEAT and len(sub) == 1 and sub[0][0] is sc.IN:
            return sub[0][1], lo
    if len(p) == 1 and p[0][0] is sc.IN:
        return p[0][1], None
    return None


def re_fullmatch(pattern, s):
    r = re_simple_class_plus(pattern)
    items, lo = r
    if len(s.b) < lo:
        return None
    ok = conj([charclass(items, x, pattern.flags) for x in s.b])
    return True if Ctx.cur.fork(ok) else None


def re_search(pattern, s):
    items, lo = re_simple_class_plus(pattern)
    assert lo is None
    ok = disj([charclass(items, x, pattern.flags) for x in s.b])
    return True if Ctx.cur.fork(ok) else None

import asyncio, sys
sys.path.insert(0, "/repo")
from unittest import mock
from aiohttp.connector import BaseConnector
from aiohttp.client_reqrep import ConnectionKey
from aiohttp import ClientTimeout

class FakeProto:
    def __init__(self): self.closed_=False; self.should_close=False; self.transport=mock.Mock(); self.closed=None
    def is_connected(self): return not self.closed_
    def close(self): self.closed_=True
    def abort(self): self.closed_=True

class C(BaseConnector):
    async def _create_connection(self, req, traces, timeout):
        await asyncio.sleep(0)
        return FakeProto()

def key(h): return ConnectionKey(h, 80, False, True, None, None, None)
class Req:
    def __init__(self,h): self.connection_key=key(h); self.proxy=None

async def main():
    c = C(limit=1)
    t = ClientTimeout()
    a = await c.connect(Req("k1"), [], t)
    a.release()
    print("idle", {k: len(v) for k,v in c._conns.items()}, "acq", len(c._acquired))
    b = await c.connect(Req("k2"), [], t)
    print("after k2 acq", len(c._acquired))
    d = await c.connect(Req("k1"), [], t)
    print("after k1 reuse acq", len(c._acquired), "limit", c.limit)
asyncio.run(main())

import sys
sys.path.insert(0, "/repo")
from aiohttp.http_parser import HttpRequestParser
class P:
    transport=None
    def pause_reading(self): pass
    def resume_reading(self, resume_parser=True): pass
def run(pieces, **kw):
    p = HttpRequestParser(P(), None, 2**16, **kw)
    out=[]
    try:
        for x in pieces:
            m,_,_ = p.feed_data(x)
            out += [(a.method,a.path,tuple(a.raw_headers)) for a,_ in m]
    except Exception as e:
        return out, type(e).__name__
    return out, None
msg = b"GET / HTTP/1.1\r\nHost: a\r\nX: " + b"y"*20 + b"\r\n\r\n"
for kw in (dict(max_line_size=16, max_field_size=64), dict(max_line_size=64, max_field_size=16)):
    whole = run([msg], **kw)
    res = {}
    for c in range(len(msg)+1):
        r = run([msg[:c], msg[c:]], **kw)
        res.setdefault((len(r[0]), r[1]), []).append(c)
    print(kw, "whole:", (len(whole[0]), whole[1]), "by cut:", res)

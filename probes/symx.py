"""Prototype: lean re-execution symbolic executor over z3 (probe only)."""
import time
import z3


class Abort(BaseException):
    pass


class Ctx:
    cur = None

    def __init__(self):
        self.solver = z3.Solver()
        self.prefix = []  # decisions to replay
        self.trail = []  # decisions made in this run: (cond_expr, taken, other_feasible)
        self.pos = 0
        self.n_checks = 0
        self.vars = {}

    def fresh_int(self, name, lo=None, hi=None):
        v = z3.Int(name)
        self.vars[name] = v
        if lo is not None:
            self.solver.add(v >= lo)
        if hi is not None:
            self.solver.add(v <= hi)
        return SInt(v)

    def fork(self, expr):
        expr = z3.simplify(expr)
        if z3.is_true(expr):
            return True
        if z3.is_false(expr):
            return False
        if self.pos < len(self.prefix):
            taken = self.prefix[self.pos]
            self.pos += 1
            self.solver.add(expr if taken else z3.Not(expr))
            self.trail.append((taken, False))
            return taken
        # new decision: check both
        self.n_checks += 2
        self.solver.push()
        self.solver.add(expr)
        t_ok = self.solver.check() == z3.sat
        self.solver.pop()
        self.solver.push()
        self.solver.add(z3.Not(expr))
        f_ok = self.solver.check() == z3.sat
        self.solver.pop()
        if t_ok and f_ok:
            self.solver.add(expr)
            self.trail.append((True, True))
            self.pos += 1
            return True
        if t_ok:
            self.solver.add(expr)
            self.trail.append((True, False)); self.pos += 1
            return True
        if f_ok:
            self.solver.add(z3.Not(expr))
            self.trail.append((False, False)); self.pos += 1
            return False
        raise Abort()


def explore(fn, setup):
    """DFS over decision prefixes. fn(ctx, inputs) must return a z3 Bool property (or python bool)."""
    stack = [[]]
    paths = 0
    cex = None
    nchecks = 0
    t0 = time.time()
    while stack:
        prefix = stack.pop()
        ctx = Ctx()
        ctx.prefix = prefix
        Ctx.cur = ctx
        inputs = setup(ctx)
        try:
            prop = fn(ctx, inputs)
        except Abort:
            continue
        paths += 1
        nchecks += ctx.n_checks
        # schedule alternatives
        dec = [t for (t, _) in ctx.trail]
        for i in range(len(prefix), len(ctx.trail)):
            taken, other = ctx.trail[i]
            if other:
                stack.append(dec[:i] + [not taken])
        if isinstance(prop, SBool):
            prop = prop.e
        if prop is True:
            continue
        if prop is False:
            prop = z3.BoolVal(False)
        ctx.solver.push()
        ctx.solver.add(z3.Not(prop))
        nchecks += 1
        r = ctx.solver.check()
        if r == z3.sat:
            m = ctx.solver.model()
            cex = {k: m.eval(v, model_completion=True) for k, v in ctx.vars.items()}
            break
        ctx.solver.pop()
    return paths, nchecks, time.time() - t0, cex


def _e(x):
    if isinstance(x, (SInt, SBool)):
        return x.e
    return x


class SBool:
    def __init__(self, e):
        self.e = e

    def __bool__(self):
        return Ctx.cur.fork(self.e)


def mkbool(e):
    e = z3.simplify(e)
    if z3.is_true(e):
        return True
    if z3.is_false(e):
        return False
    return SBool(e)


class SInt:
    def __init__(self, e):
        self.e = e

    def _bin(self, o, f):
        return SInt(z3.simplify(f(self.e, _e(o))))

    def __add__(self, o): return self._bin(o, lambda a, b: a + b)
    def __radd__(self, o): return self._bin(o, lambda a, b: b + a)
    def __sub__(self, o): return self._bin(o, lambda a, b: a - b)
    def __rsub__(self, o): return self._bin(o, lambda a, b: b - a)
    def __rshift__(self, k): return SInt(z3.simplify(self.e / (2 ** k)))
    def __lshift__(self, k): return SInt(z3.simplify(self.e * (2 ** k)))
    def __and__(self, m):
        assert isinstance(m, int) and (m & (m + 1)) == 0
        return SInt(z3.simplify(self.e % (m + 1)))
    def __or__(self, o):
        # only used for (a<<8)|b with b<256: treat as add (checked by caller bounds)
        return self + o
    def __eq__(self, o): return mkbool(self.e == _e(o))
    def __ne__(self, o): return mkbool(self.e != _e(o))
    def __lt__(self, o): return mkbool(self.e < _e(o))
    def __le__(self, o): return mkbool(self.e <= _e(o))
    def __gt__(self, o): return mkbool(self.e > _e(o))
    def __ge__(self, o): return mkbool(self.e >= _e(o))
    def __bool__(self): return Ctx.cur.fork(self.e != 0)
    def __hash__(self):
        return self.__index__().__hash__()
    def __index__(self):
        # concretize by case split
        ctx = Ctx.cur
        s = ctx.solver
        while True:
            if s.check() != z3.sat:
                raise Abort()
            v = s.model().eval(self.e, model_completion=True).as_long()
            if ctx.fork(self.e == v):
                return v
    __int__ = __index__
    def __repr__(self): return f"SInt({self.e})"


class SBytes:
    """concrete length, per-element int|SInt"""
    def __init__(self, elems=()):
        self.b = tuple(elems.b if isinstance(elems, SBytes) else elems)
    def clear(self):
        self.b = ()
    def __len__(self): return len(self.b)
    def __getitem__(self, i):
        if isinstance(i, slice):
            if any(isinstance(x, SInt) for x in (i.start, i.stop)):
                i = slice(None if i.start is None else int(i.start), None if i.stop is None else int(i.stop))
            return SBytes(self.b[i])
        if isinstance(i, SInt):
            i = int(i)
        return self.b[i]
    def __add__(self, o):
        if isinstance(o, bytes): o = SBytes(o)
        return SBytes(self.b + o.b)
    def __radd__(self, o):
        if isinstance(o, bytes): o = SBytes(o)
        return SBytes(o.b + self.b)
    def __bool__(self): return len(self.b) > 0
    def __eq__(self, o):
        if isinstance(o, bytes): o = SBytes(o)
        if len(o.b) != len(self.b): return False
        return mkbool(z3.And([_e(a) == _e(b) for a, b in zip(self.b, o.b)] + [z3.BoolVal(True)]))
    def __iter__(self): return iter(self.b)

from ws1 import run
from typing import Tuple
def _ref_ok(b0:int,b1:int)->bool:
    return True
def h2(b0: int, b1: int, b2:int, b3:int) -> bool:
    """
    pre: 0 <= b0 < 256 and 0 <= b1 < 256 and 0 <= b2 < 256 and 0<=b3<256
    post: _
    """
    data = bytes([b0, b1, b2, b3])
    a = run([data])
    b = run([data[:1], data[1:]])
    return a == b

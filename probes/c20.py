import sys, asyncio
sys.path.insert(0, "/repo")
from aiohttp import web
from aiohttp.web import _run_app
log = []
def mk(i, fail):
    async def ctx(app):
        if fail: log.append(f"setup{i}-fail"); raise RuntimeError(f"boom{i}")
        log.append(f"setup{i}")
        yield
        log.append(f"teardown{i}")
    return ctx
async def main():
    app = web.Application()
    app.cleanup_ctx.append(mk(1, False)); app.cleanup_ctx.append(mk(2, True))
    try:
        await _run_app(app, print=None, port=0)
    except RuntimeError as e:
        print("raised", e)
    print(log)
asyncio.run(main())

"""Probe: symbolic bytes through WebSocketReader._feed_data"""
from typing import List, Tuple
from aiohttp._websocket.reader_py import WebSocketReader, WebSocketDataQueue
from aiohttp._websocket.models import WebSocketError

class Proto:
    _reading_paused = False
    def pause_reading(self): self._reading_paused = True
    def resume_reading(self): self._reading_paused = False

class Q:
    def __init__(self):
        self._protocol = Proto()
        self.msgs = []
        self.exc = None
    def feed_data(self, m): self.msgs.append(m)
    def set_exception(self, exc, cause=None): self.exc = exc
    def feed_eof(self): pass

def run(chunks):
    q = Q()
    r = WebSocketReader(q, 16, False, True)
    for c in chunks:
        r.feed_data(c)
    code = q.exc.code if isinstance(q.exc, WebSocketError) else (None if q.exc is None else -1)
    return [(m.type.value, m.data if not isinstance(m.data,(bytes,bytearray)) else bytes(m.data)) for m in q.msgs], code

def split_invariance(data: bytes, cut: int) -> bool:
    """
    pre: len(data) <= 3
    pre: 0 <= cut <= len(data)
    post: _
    """
    a = run([data])
    b = run([data[:cut], data[cut:]])
    return a == b

import asyncio, sys
sys.path.insert(0, "/repo"); sys.path.insert(0, __import__("os").path.dirname(__import__("os").path.abspath(__file__)))
from vloop import VLoop, MemTransport
from aiohttp import web
from aiohttp.web_server import Server
loop = VLoop(); asyncio._set_running_loop(loop)
async def handler(request):
    resp = web.StreamResponse()
    await resp.prepare(request)
    await resp.write(b"hello")
    await resp.write_eof()
    return resp
proto = Server(handler)(); tr = MemTransport(); proto.connection_made(tr); loop.run_ready()
proto.data_received(b"GET / HTTP/1.0\r\nConnection: keep-alive\r\n\r\n"); loop.run_ready()
print(bytes(tr.out).decode().replace("\r\n","|"))
print("server transport closed:", tr.closed, " server keepalive flag:", proto._keepalive)
loop.advance(100); print("after 100s closed:", tr.closed)

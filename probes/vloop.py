import asyncio, sys, heapq, itertools
sys.path.insert(0, "/repo")
from asyncio import events

class VLoop(asyncio.AbstractEventLoop):
    def __init__(self):
        self._ready = []
        self._timers = []
        self._now = 0.0
        self._exc = []
        self._seq = itertools.count()
        self._closed = False
    def time(self): return self._now
    def get_debug(self): return False
    def is_closed(self): return self._closed
    def is_running(self): return True
    def create_future(self): return asyncio.Future(loop=self)
    def create_task(self, coro, *, name=None, context=None):
        return asyncio.Task(coro, loop=self, name=name, context=context)
    def call_soon(self, cb, *args, context=None):
        h = events.Handle(cb, args, self, context); self._ready.append(h); return h
    call_soon_threadsafe = call_soon
    def call_at(self, when, cb, *args, context=None):
        h = events.TimerHandle(when, cb, args, self, context)
        heapq.heappush(self._timers, (when, next(self._seq), h)); return h
    def call_later(self, delay, cb, *args, context=None):
        return self.call_at(self._now + delay, cb, *args, context=context)
    def _timer_handle_cancelled(self, h): pass
    def call_exception_handler(self, ctx): self._exc.append(ctx)
    def default_exception_handler(self, ctx): self._exc.append(ctx)
    def run_in_executor(self, ex, fn, *a):
        f = self.create_future()
        try: f.set_result(fn(*a))
        except Exception as e: f.set_exception(e)
        return f
    def run_ready(self):
        n = 0
        while self._ready:
            h = self._ready.pop(0)
            if not h._cancelled:
                h._run(); n += 1
        return n
    def advance(self, dt):
        target = self._now + dt
        self.run_ready()
        while self._timers and self._timers[0][0] <= target:
            when, _, h = heapq.heappop(self._timers)
            self._now = max(self._now, when)
            if not h._cancelled:
                h._run()
            self.run_ready()
        self._now = target

class MemTransport(asyncio.Transport):
    def __init__(self): super().__init__(); self.out = bytearray(); self.closed = False; self.paused = False
    def write(self, d): self.out += bytes(d)
    def writelines(self, ds):
        for d in ds: self.write(d)
    def close(self): self.closed = True
    def abort(self): self.closed = True
    def is_closing(self): return self.closed
    def pause_reading(self): self.paused = True
    def resume_reading(self): self.paused = False
    def get_extra_info(self, name, default=None): return default
    def get_write_buffer_size(self): return 0

if __name__ == "__main__":
    from aiohttp import web
    from aiohttp.web_server import Server
    loop = VLoop()
    asyncio._set_running_loop(loop)
    async def handler(request):
        body = await request.read()
        return web.Response(text=f"{request.method} {request.path} {len(body)}")
    srv = Server(handler)
    proto = srv()
    tr = MemTransport()
    proto.connection_made(tr)
    loop.run_ready()
    proto.data_received(b"POST /a HTTP/1.1\r\nHost: x\r\nContent-Length: 3\r\n\r\nab")
    loop.run_ready()
    proto.data_received(b"cGET /b HTTP/1.1\r\nHost: x\r\n\r\nGET http://[ HTTP/1.1\r\nHost: x\r\n\r\n") if False else None
    proto.data_received(b"cGET /b HTTP/1.1\r\nHost: x\r\n\r\n")
    loop.run_ready()
    print(bytes(tr.out).decode().replace("\r\n", "|"))
    print("closed", tr.closed, "exc", loop._exc)
    try:
        proto.data_received(b"GET http://[ HTTP/1.1\r\nHost: x\r\n\r\n")
    except Exception as e:
        print("escaped:", type(e).__name__, e)
    loop.advance(4000)
    print("closed after keepalive timeout", tr.closed, "timers", len(loop._timers))

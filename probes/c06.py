import sys, asyncio
sys.path.insert(0, "/repo")
from unittest import mock
from aiohttp.client_proto import ResponseHandler
async def main():
    loop = asyncio.get_running_loop()
    p = ResponseHandler(loop)
    tr = mock.Mock(); tr.is_closing.return_value=False
    p.connection_made(tr)
    p.set_response_params()
    p.data_received(b"HTTP/1.1 200 OK\r\nContent-Length: 1\r\n\r\nA")
    msg, payload = await p.read()
    print("resp1", msg.code, await payload.read(), "should_close at release:", p.should_close)
    # idle in pool: unsolicited response arrives
    p.data_received(b"HTTP/1.1 200 OK\r\nContent-Length: 1\r\n\r\nX")
    print("idle; is_connected:", p.is_connected(), "should_close now:", p.should_close)
    # re-acquired (connector._get only checks is_connected and age)
    p.set_response_params()
    msg, payload = await p.read()
    print("resp2 delivered without any bytes after request2:", msg.code, await payload.read())
asyncio.run(main())

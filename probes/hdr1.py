import sys, re, time
sys.path.insert(0, __import__("os").path.dirname(__import__("os").path.abspath(__file__))); sys.path.insert(0, __import__("os").path.dirname(__import__("os").path.abspath(__file__)))
import z3
import sx2
from sx2 import *
import sxhook
# extend hook dispatch
class SymSet:
    def __init__(self, elts): self.elts = list(elts)
    def __and__(self, o):
        return SymAnd(self, o)
class SymAnd:
    def __init__(self, a, b): self.a, self.b = a, b
    def __bool__(self):
        return Ctx.cur.fork(disj([elem_eq(E(x), c) for x in self.a.elts for c in self.b]))
def callm(o, name, /, *a, **k):
    if isinstance(o, re.Pattern) and a and isinstance(a[0], SSeq):
        return {"fullmatch": re_fullmatch, "search": re_search}[name](o, a[0])
    m = getattr(o, name)
    return m(*a, **k) if k else m(*a)
def contains(x, c):
    if isinstance(x, SSeq) and isinstance(c, (frozenset, set)):
        return Ctx.cur.fork(disj([x.eq_formula(v) for v in c]))
    return x in c
sxhook.SX.callm = staticmethod(callm)
sxhook.SX.contains = staticmethod(contains)
sxhook.SX.set_ = staticmethod(lambda *e: SymSet(e) if any(isinstance(x, SInt) for x in e) else set(e))
# add Set rewriting
import ast
def visit_Set(self, node):
    self.generic_visit(node)
    return ast.copy_location(ast.Call(func=ast.Attribute(value=ast.Name("_sx_", ast.Load()), attr="set_", ctx=ast.Load()), args=node.elts, keywords=[]), node)
sxhook.T.visit_Set = visit_Set
sxhook.install()
sys.path.insert(0, "/repo")
from aiohttp import http_parser as hp
from aiohttp.http_exceptions import HttpProcessingError

class MM:
    """multimap stub"""
    def __init__(self): self.items_ = []
    def add(self, k, v): self.items_.append((k, v))
    def __contains__(self, k):
        return Ctx.cur.fork(disj([kk.lower().eq_formula(k.lower()) for kk, _ in self.items_]))
hp.CIMultiDict = MM
hp.HeadersDictProxy = lambda md: md

N = int(sys.argv[1])
TCH = set(b"!#$%&'*+-.^_`|~") | set(range(48,58)) | set(range(65,91)) | set(range(97,123))
def tchar(x): return z3.Or([x == c for c in sorted(TCH)])
def okval(x):  # decoded-domain: forbidden = 0..8, 10..31, 127
    return z3.Not(z3.Or(z3.And(x >= 0, x <= 8), z3.And(x >= 10, x <= 31), x == 127))
def ref_accept(bs):
    alts = []
    for i in range(1, len(bs)):
        alts.append(z3.And([tchar(b) for b in bs[:i]] + [bs[i] == 58] + [okval(b) for b in bs[i+1:]]))
    return z3.Or(alts) if alts else z3.BoolVal(False)

def setup(ctx):
    bs = [ctx.fresh_int(f"b{i}", 0, 255) for i in range(N)]
    for b in bs:
        ctx.solver.add(z3.Or(b < 128, b >= 248))
        ctx.solver.add(b != 13, b != 10)  # CR/LF cannot occur inside a line handed to parse_headers by feed_data (split on CRLF; bare LF rejected before)
    return bs
def prop(ctx, bs):
    line = SBytes(bs)
    if N == 0:
        return True, "empty"
    p = hp.HeadersParser(8190, False)
    try:
        h, raw = p.parse_headers([line, b""])
        acc = True
    except HttpProcessingError:
        acc = False
    r = ref_accept(bs)
    return (r if acc else z3.Not(r)), ("accept" if acc else "reject")
res = explore(prop, setup, 900)
print(N, res)

import sys
sys.path.insert(0, "/repo")
from aiohttp.http_parser import HttpRequestParser
class P:
    transport=None
    def pause_reading(self): pass
    def resume_reading(self, resume_parser=True): pass
def t(raw):
    p = HttpRequestParser(P(), None, 2**16)
    try:
        m,_,tail = p.feed_data(raw)
        return [(a.method, a.path, a.version, list(a.raw_headers)) for a,_ in m], tail
    except Exception as e:
        return type(e).__name__
for raw in [b"GET /\x01 HTTP/1.1\r\nHost: a\r\n\r\n", b"GET /\x7f HTTP/1.1\r\nHost: a\r\n\r\n", b"GET /\xff HTTP/1.1\r\nHost: a\r\n\r\n",
            b"GET /a\tb HTTP/1.1\r\nHost: a\r\n\r\n", b"GET /a\rb HTTP/1.1\r\nHost: a\r\n\r\n", b"GET / HTTP/1.1\r\nHost: a\r\nHost: b\r\n\r\n",
            b"GET / HTTP/1.1\r\nHost: a\r\nX: a\rb\r\n\r\n", b"GET / HTTP/1.1\r\nHost: a\r\nX:\x00\r\n\r\n", b"GET /# HTTP/1.1\r\nHost: a\r\n\r\n",
            b"\r\n\r\nGET / HTTP/1.1\r\nHost: a\r\n\r\n", b"GET / HTTP/1.1\r\nHost: a\r\nContent-Length: 1_0\r\n\r\n", b"GET / HTTP/1.1\r\nHost: a\r\nContent-Length: \xd9\xa1\r\n\r\n",
            b"GET / HTTP/2.0\r\nHost: a\r\n\r\n", b"GET / HTTP/1.1 \r\nHost: a\r\n\r\n", b"get / HTTP/1.1\r\nHost: a\r\n\r\n", b"GET / HTTP/1.1\r\n Host: a\r\n\r\n"]:
    print(raw[:40], "->", t(raw))

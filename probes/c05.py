import asyncio, sys, logging
sys.path.insert(0, "/repo"); sys.path.insert(0, __import__("os").path.dirname(__import__("os").path.abspath(__file__)))
logging.disable(logging.CRITICAL)
from vloop import VLoop, MemTransport
from aiohttp import web
from aiohttp.web_server import Server
def run(stream_pieces, read_body=False):
    loop = VLoop(); asyncio._set_running_loop(loop)
    async def handler(request):
        if read_body: await request.read()
        return web.Response(text="ok")
    proto = Server(handler)(); tr = MemTransport(); proto.connection_made(tr); loop.run_ready()
    esc = None
    for p in stream_pieces:
        try:
            proto.data_received(p)
        except Exception as e:
            esc = type(e).__name__; break
        loop.run_ready()
    loop.advance(30)  # past lingering time, below keepalive
    nresp = bytes(tr.out).count(b"HTTP/1.1 ") + bytes(tr.out).count(b"HTTP/1.0 ")
    th = proto._task_handler
    return dict(resp=nresp, first=bytes(tr.out)[:12], closed=tr.closed, escaped=esc, handler_alive=(th is not None and not th.done()), waiter=proto._waiter is not None, msgs=len(proto._messages), loopexc=len(loop._exc))
H = b"Host: a\r\n"
cases = {
 "connect": [b"CONNECT a:80 HTTP/1.1\r\n" + H + b"\r\n", b"rawdata"],
 "upgrade-declined+tail": [b"GET / HTTP/1.1\r\n" + H + b"Upgrade: websocket\r\nConnection: upgrade\r\n\r\nGET /2 HTTP/1.1\r\n" + H + b"\r\n"],
 "upgrade-declined+garbage": [b"GET / HTTP/1.1\r\n" + H + b"Upgrade: websocket\r\nConnection: upgrade\r\n\r\n\x00\x01garbage\r\n\r\n"],
 "body-unread-incomplete": [b"POST / HTTP/1.1\r\n" + H + b"Content-Length: 10\r\n\r\nabc"],
 "chunked-bad-after-headers": [b"POST / HTTP/1.1\r\n" + H + b"Transfer-Encoding: chunked\r\n\r\nzz\r\n"],
 "chunked-bad-read": [b"POST / HTTP/1.1\r\n" + H + b"Transfer-Encoding: chunked\r\n\r\nzz\r\n"],
 "partial-line": [b"GET / HT"],
 "pipeline-then-bad": [b"GET / HTTP/1.1\r\n" + H + b"\r\nBAD\r\n\r\n"],
 "expect-100": [b"POST / HTTP/1.1\r\n" + H + b"Expect: 100-continue\r\nContent-Length: 3\r\n\r\n"],
 "te-identity-1.0": [b"POST / HTTP/1.0\r\nTransfer-Encoding: chunked\r\n\r\n0\r\n\r\n"],
 "options-star": [b"OPTIONS * HTTP/1.1\r\n" + H + b"\r\n"],
 "abs-badport": [b"GET http://a:b/ HTTP/1.1\r\n" + H + b"\r\n"],
}
for k, v in cases.items():
    print(k, run(v, read_body=(k=="chunked-bad-read")))

#!/bin/sh
# usage: dev/seedwt.sh <patch.diff> <PID> [extra check args]
# dev convenience: apply a seeded change to a scratch worktree (not /repo) and run the quick check against it
P="$1"; PID="$2"; shift 2
WT=$(mktemp -d /var/tmp/seedwt.XXXXXX); rmdir "$WT"
git -C /repo worktree add --detach "$WT" HEAD >/dev/null 2>&1 || exit 9
( cd "$WT" && (git apply "$P" 2>/dev/null || patch -p1 -s --no-backup-if-mismatch < "$P") ) || { echo PATCH-FAILED; git -C /repo worktree remove --force "$WT"; exit 9; }
cd /verif && VERIF_REPO_ROOT="$WT" ./check "$PID" --tier quick --no-evidence --replay-dir "$WT/_replays" "$@" 2>&1 | grep -v "^KNOWN\|^INCOMPLETE" | cut -c1-300 | sort | uniq | tail -8
git -C /repo worktree remove --force "$WT"; git -C /repo worktree prune

"""dev: a job whose third path kills its worker (tests that run_jobs survives a dead worker)"""
import os, signal
def boom(ctx):
    x = ctx.choice("x", 6)
    if x == 3:
        os.kill(os.getpid(), signal.SIGKILL)
    return True, f"ok{x}", None
def fine(ctx):
    x = ctx.choice("x", 4)
    return True, f"fine{x}", None

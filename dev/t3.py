import sys
sys.path.insert(0, "/verif"); sys.path.insert(0, "/repo")
from lemmas import regex_lemmas as L
from aiohttp import http_parser as hp, http_writer as hw
import aiohttp.client_reqrep as cr
print(L.equiv("TOKENRE", L.to_z3(hp.TOKENRE), L.ref_token()))
print(L.equiv("DIGITS", L.to_z3(hp.DIGITS), L.ref_digits()))
print(L.equiv("HEXDIGITS", L.to_z3(hp.HEXDIGITS), L.ref_hexdigits()))
print(L.equiv("VERSRE", L.to_z3(hp.VERSRE), L.ref_version()))
print(L.search_equiv_class("FIELD_VALUE_CTL", hp._FIELD_VALUE_FORBIDDEN_CTL_RE, L.ref_ctl_except_htab()))
print(L.search_equiv_class("WRITER_CTL", hw._FORBIDDEN_HEADER_CHARS_RE, L.ref_ctl_except_htab()))
import z3
print(L.search_equiv_class("METHOD_NONTOKEN", cr._CONTAINS_CONTROL_CHAR_RE, z3.Intersect(L.ALLCHAR, z3.Complement(L.ref_tchar()))))
import re
print(L.equiv("mut", L.to_z3(re.compile(r"\d+")), L.ref_digits()))

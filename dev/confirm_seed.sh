#!/bin/sh
# usage: dev/confirm_seed.sh <cXX> [seedname]  -- confirm a sub-agent's seeded change in its scratch worktree, then store it under /verif/seeded/
ID="$1"; NAME="${2:-$1}"; W=${WTROOT:-/tmp/wt}/$ID; S=$W/_seed
[ -f $S/patch.diff ] || { echo "$ID: no patch"; exit 1; }
cd $W || exit 1
git checkout -q -- aiohttp
git checkout -q --detach $(git -C /repo rev-parse HEAD) || { echo "$ID: cannot move worktree to /repo HEAD"; exit 1; }
BASE=/verif/dev/baseline_failed.txt
if [ ! -f $BASE ]; then
  /venv/bin/python -m pytest -q -p no:cacheprovider --timeout=900 --continue-on-collection-errors -n 8 2>&1 | grep "^FAILED\|^ERROR" | sort > $BASE
fi
PYTHONPATH=$W AIOHTTP_NO_EXTENSIONS=1 /venv/bin/python $S/demo.py > $S/confirm_unpatched.txt 2>&1; U=$?
git apply $S/patch.diff || { echo "$ID: patch does not apply"; exit 1; }
PYTHONPATH=$W AIOHTTP_NO_EXTENSIONS=1 /venv/bin/python $S/demo.py > $S/confirm_patched.txt 2>&1; P=$?
/venv/bin/python -m pytest -q -p no:cacheprovider --timeout=900 --continue-on-collection-errors -n 8 2>&1 > $S/confirm_tests.txt
grep "^FAILED\|^ERROR" $S/confirm_tests.txt | sed "s| - .*||" | sort > $S/confirm_failed.txt
TL=$(tail -1 $S/confirm_tests.txt)
if diff -q $BASE $S/confirm_failed.txt >/dev/null; then T=same; else T=DIFFERENT; fi
echo "$ID: demo unpatched rc=$U patched rc=$P tests=$T :: $TL"
if [ $U = 0 ] && [ $P != 0 ] && [ $T = same ]; then
  D=/verif/seeded/$NAME; mkdir -p $D
  cp $S/patch.diff $S/demo.py $D/
  python3 - "$S/meta.json" "$D/meta.json" "$TL" <<'PY'
import json,sys
try: m=json.load(open(sys.argv[1]))
except Exception as e: m={"note":"agent meta unreadable: %r"%e}
m["confirmed_by_me"]={"demo_unpatched_rc":0,"demo_patched_rc":"nonzero","suite":"same failed-test set as unmodified tree: "+sys.argv[3],
 "commands":["PYTHONPATH=<wt> AIOHTTP_NO_EXTENSIONS=1 /venv/bin/python _seed/demo.py (both directions)","/venv/bin/python -m pytest -q -p no:cacheprovider --timeout=900 --continue-on-collection-errors -n 8 (failed ids diffed against unmodified tree)"]}
json.dump(m,open(sys.argv[2],"w"),indent=1)
PY
  echo "$ID: stored in $D"
else
  echo "$ID: NOT CONFIRMED"
fi
git checkout -q -- aiohttp

#!/usr/bin/env python3
"""dev: run every stored seeded change against its property's quick check in a scratch worktree.
Writes seeded/RESULTS.json (which check caught which change, with the violation keys)."""
import glob, json, os, re, subprocess, sys, tempfile, time

ROOT = "/verif"
only = sys.argv[1:]
res = {}
if os.path.exists(ROOT + "/seeded/RESULTS.json"):
    res = json.load(open(ROOT + "/seeded/RESULTS.json"))
for d in sorted(glob.glob(ROOT + "/seeded/c*")):
    name = os.path.basename(d)
    if only and name not in only:
        continue
    pid = json.load(open(d + "/meta.json"))["property"]
    patch = d + "/patch_current.diff" if os.path.exists(d + "/patch_current.diff") else d + "/patch.diff"
    wt = tempfile.mkdtemp(prefix="seedwt.", dir="/var/tmp"); os.rmdir(wt)
    subprocess.run(["git", "-C", "/repo", "worktree", "add", "--detach", wt, "HEAD"], check=True, capture_output=True)
    try:
        r = subprocess.run(["git", "apply", patch], cwd=wt, capture_output=True)
        if r.returncode:
            r = subprocess.run(f"patch -p1 -s --no-backup-if-mismatch < {patch}", shell=True, cwd=wt, capture_output=True)
        if r.returncode:
            res[name] = {"property": pid, "error": "patch does not apply"}; print(name, "PATCH-FAILED"); continue
        t0 = time.time()
        env = dict(os.environ, VERIF_REPO_ROOT=wt)
        p = subprocess.run([ROOT + "/check", pid, "--tier", "quick", "--no-evidence", "--replay-dir", wt + "/_replays"],
                           cwd=ROOT, env=env, capture_output=True, text=True)
        keys = sorted(set(re.findall(r"^VIOLATION property=\S+ replay=\S+\s+# ([^ ]+?): ", p.stdout, re.M)))
        res[name] = {"property": pid, "patch": os.path.basename(patch), "exit": p.returncode, "violation_keys": keys[:12],
                     "n_violation_lines": len(re.findall(r"^VIOLATION", p.stdout, re.M)), "wall_s": round(time.time() - t0, 1)}
        print(name, pid, "exit", p.returncode, keys[:4], flush=True)
    finally:
        subprocess.run(["git", "-C", "/repo", "worktree", "remove", "--force", wt], capture_output=True)
        subprocess.run(["git", "-C", "/repo", "worktree", "prune"], capture_output=True)
    json.dump(res, open(ROOT + "/seeded/RESULTS.json", "w"), indent=1, sort_keys=True)

import sys, time
sys.path.insert(0, "/verif"); sys.path.insert(0, "/repo")
from symx import hook
hook.install({"refs": "/verif"})
from symx import core
from harness import c11
c11.setup_models()
ctx = core.Ctx(); core.Ctx.cur = ctx
from aiohttp._websocket.writer import WebSocketWriter
tr = c11._Tr()
w = WebSocketWriter(c11._WProto(), tr, use_mask=True, random=c11._Rand(ctx))
p = ctx.bytes("p", 2)
t=time.time(); c11.run_sync(w.send_frame(p, 2)); print("send", time.time()-t, ctx.n_checks)
print(tr.out.b[2:])
t=time.time(); got, exc, ret = c11._read_all([tr.out], False); print("read", time.time()-t, ctx.n_checks, ctx.solver_s)
print(got, exc)
print(got[0][1].b if hasattr(got[0][1],'b') else got[0][1])

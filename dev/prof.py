import sys, json, cProfile, pstats
sys.path.insert(0, "/verif"); sys.path.insert(0, "/repo")
from symx import hook
hook.install({"refs": "/verif"})
from symx import explore_paths as explore
import importlib
mod = importlib.import_module(sys.argv[1])
if hasattr(mod, "setup_models"): mod.setup_models()
fn = getattr(mod, sys.argv[2])
params = json.loads(sys.argv[3]) if len(sys.argv) > 3 else {}
pr = cProfile.Profile(); pr.enable()
r = explore(lambda ctx: fn(ctx, **params), time_limit=float(sys.argv[4]) if len(sys.argv)>4 else 20)
pr.disable()
print(r["paths"], r["checks"], r["solver_s"], r["wall_s"])
pstats.Stats(pr).sort_stats("cumulative").print_stats(28)

#!/bin/sh
# usage: dev/seedtest.sh <patch.diff> <PID> [extra check args]   -- apply seeded change to /repo, run quick check, undo
P="$1"; PID="$2"; shift 2
cd /repo || exit 9
git -C /repo diff --quiet || { echo "repo dirty"; exit 9; }
if ! git -C /repo apply "$P" 2>/dev/null; then
  patch -p1 -s --no-backup-if-mismatch < "$P" || { echo "PATCH-FAILED"; git -C /repo checkout -- .; exit 9; }
fi
cd /verif && ./check "$PID" --tier quick --no-evidence "$@" 2>&1 | grep -v "^KNOWN\|^INCOMPLETE" | cut -c1-400 | tail -6
echo "exit=$?"
git -C /repo checkout -- . ; git -C /repo status --short | head -3

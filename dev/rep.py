import sys, json
sys.path.insert(0, "/verif"); sys.path.insert(0, "/repo")
import importlib, traceback
from symx.core import ConcreteCtx
mod = importlib.import_module(sys.argv[1]); fn = getattr(mod, sys.argv[2])
params = json.loads(sys.argv[3]); w = json.loads(sys.argv[4])
try:
    print(fn(ConcreteCtx(w), **params))
except Exception: traceback.print_exc()

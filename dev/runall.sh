#!/bin/sh
# usage: dev/runall.sh quick|thorough [ids...]  -- run the registered commands one after the other, summary at the end
TIER="$1"; shift
IDS="$@"; [ -z "$IDS" ] && IDS="C01 C02 C03 C04 C05 C06 C07 C08 C09 C10 C11 C12 C13 C14 C15 C16 C17 C18 C19 C20"
cd /verif
mkdir -p /var/tmp/runall
for id in $IDS; do
  t0=$(date +%s)
  ./check $id --tier $TIER > /var/tmp/runall/$id.$TIER.log 2>&1; rc=$?
  t1=$(date +%s)
  echo "$id rc=$rc $((t1-t0))s $(grep -c '^VIOLATION' /var/tmp/runall/$id.$TIER.log) viol $(grep -c '^KNOWN' /var/tmp/runall/$id.$TIER.log) known $(grep -c '^INCOMPLETE' /var/tmp/runall/$id.$TIER.log) incomplete $(grep -c '^HARNESS' /var/tmp/runall/$id.$TIER.log) harness-err"
done

import sys, asyncio
sys.path.insert(0, "/verif"); sys.path.insert(0, "/repo")
from harness.vloop import VLoop, MemTransport, install
import aiohttp
from aiohttp.client_proto import ResponseHandler
from aiohttp.connector import BaseConnector
loop = install(VLoop())
conns = []
class Conn(BaseConnector):
    async def _create_connection(self, req, traces, timeout):
        p = ResponseHandler(loop); tr = MemTransport(); p.connection_made(tr); conns.append((p, tr)); return p
async def mk(): return aiohttp.ClientSession(connector=Conn(), read_bufsize=4)
s = loop.run_until_complete(mk())
res = {}
async def opn():
    res["r"] = await s.get("http://h/")
t = asyncio.Task(opn(), loop=loop); loop.run_ready()
p, tr = conns[0]
p.data_received(b"HTTP/1.1 200 OK\r\nTransfer-Encoding: chunked\r\n\r\n"); loop.run_ready()
p.data_received(b"b\r\nhello world"); loop.run_ready()
pp = p._parser._payload_parser
print("after seg1: paused", tr.paused, "pp", pp._chunk, pp._chunk_tail, pp._paused, "more", p._parser._payload_has_more_data)
if not tr.paused:
    p.data_received(b"\r\n1\r\n!\r\n0\r\n\r\n"); loop.run_ready()
    print("after seg2: paused", tr.paused, "pp", pp._chunk, pp._chunk_tail, pp._paused, "more", p._parser._payload_has_more_data)
async def rd():
    res["body"] = await res["r"].content.read()
t2 = asyncio.Task(rd(), loop=loop); loop.run_ready()
print("read done", t2.done(), res.get("body"), "paused", tr.paused, "pp", pp._chunk, pp._chunk_tail, pp._paused, "more", p._parser._payload_has_more_data if p._parser else None)

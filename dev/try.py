import sys, json, time
sys.path.insert(0, "/verif"); sys.path.insert(0, "/repo")
from symx import hook
hook.install({"refs": "/verif"})
from symx import explore_paths as explore
import importlib
mod = importlib.import_module(sys.argv[1])
if hasattr(mod, "setup_models"): mod.setup_models()
fn = getattr(mod, sys.argv[2])
params = json.loads(sys.argv[3]) if len(sys.argv) > 3 else {}
tl = float(sys.argv[4]) if len(sys.argv) > 4 else 60
r = explore(lambda ctx: fn(ctx, **params), time_limit=tl)
ent = r.pop("entered"); 
print(json.dumps({k: v for k, v in r.items() if k not in ("samples",)}, indent=1, default=str)[:6000])
print("entered", len(ent))

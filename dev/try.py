import sys, json, time
sys.path.insert(0, "/verif"); sys.path.insert(0, "/repo")
from symx import hook
hook.install({"refs": "/verif"})
from symx import explore_paths as explore
import importlib
mod = importlib.import_module(sys.argv[1])
if hasattr(mod, "setup_models"): mod.setup_models()
fn = getattr(mod, sys.argv[2])
params = json.loads(sys.argv[3]) if len(sys.argv) > 3 else {}
tl = float(sys.argv[4]) if len(sys.argv) > 4 else 60
r = explore(lambda ctx: fn(ctx, **params), time_limit=tl)
print("paths", r["paths"], "wall", round(r["wall_s"],1), "solver", round(r["solver_s"],1), "checks", r["checks"], "timed_out", r["timed_out"], "unknown", r["unknown"], "realised", r["realised_paths"], r["realised_why"], "infeasible", r["infeasible"])
print("outcomes", r["outcomes"]); print("notes", r["notes"])
if r.get("fatal"): print(r["fatal"])
seen=set()
for v in r["violations"]:
    k=(v["tag"], (v["info"] or "")[:60])
    if k in seen: continue
    seen.add(k)
    w={k2:v2 for k2,v2 in v["witness"].items()}
    print("VIOL", v["tag"], w); print("     ", (v["info"] or "")[-900:])
print("entered", len(r["entered"]))

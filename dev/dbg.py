import sys, json, time, collections
sys.path.insert(0, "/verif"); sys.path.insert(0, "/repo")
from symx import hook
hook.install({"refs": "/verif"})
from symx import explore_paths as explore
from symx import core
import importlib, traceback
mod = importlib.import_module(sys.argv[1])
if hasattr(mod, "setup_models"): mod.setup_models()
fn = getattr(mod, sys.argv[2])
params = json.loads(sys.argv[3]) if len(sys.argv) > 3 else {}
cnt = collections.Counter()
orig = core.Ctx.fork
def fork(self, expr, payload=None):
    r = orig(self, expr, payload)
    if self.pos > len(self.prefix) or True:
        st = traceback.extract_stack(limit=6)
        where = " < ".join(f"{f.name}:{f.lineno}" for f in reversed(st[:-1]))
        cnt[where] += 1
    return r
core.Ctx.fork = fork
r = explore(lambda ctx: fn(ctx, **params), time_limit=float(sys.argv[4]) if len(sys.argv)>4 else 20)
print(r["paths"], r["outcomes"])
for k, v in cnt.most_common(25): print(v, k)

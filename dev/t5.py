import sys
sys.path.insert(0, "/verif"); sys.path.insert(0, "/repo")
from symx import hook
hook.install({"refs": "/verif"})
from symx import core
from harness import c15
c15.setup_models()
ctx = core.Ctx(); core.Ctx.cur = ctx
from aiohttp.test_utils import make_mocked_request
a = ctx.str("a",1,range(48,58))
req = make_mocked_request("GET","/f",headers={"Range":"bytes="+a+"-"+a})
try:
    print(req.http_range)
except Exception as e:
    import traceback; traceback.print_exc()

import sys, asyncio
sys.path.insert(0, "/verif"); sys.path.insert(0, "/repo")
from harness.vloop import VLoop, MemTransport, install
import aiohttp
from aiohttp.client_proto import ResponseHandler
from aiohttp.connector import BaseConnector
loop = install(VLoop())
conns = []
class Conn(BaseConnector):
    async def _create_connection(self, req, traces, timeout):
        p = ResponseHandler(loop); tr = MemTransport(); p.connection_made(tr); conns.append((p, tr)); return p
async def mk(): return aiohttp.ClientSession(connector=Conn(), read_bufsize=4)
s = loop.run_until_complete(mk())
res = {}
async def call():
    async with s.get("http://h/") as r:
        res["body"] = await r.read()
t = asyncio.Task(call(), loop=loop); loop.run_ready()
p, tr = conns[0]
p.data_received(b"HTTP/1.1 200 OK\r\nTransfer-Encoding: chunked\r\n\r\nb\r\nhello world\r\n"); loop.run_ready()
print("after 1st:", t.done(), "paused", tr.paused, "proto paused", p._reading_paused)
p.data_received(b"1\r\n!\r\n0\r\n\r\n"); loop.run_ready()
print("after 2nd:", t.done(), res, "paused", tr.paused, p._reading_paused, "payload", p._payload, "parser", p._parser and p._parser._payload_parser and (p._parser._payload_parser._chunk, p._parser._payload_parser._chunk_tail, p._parser._payload_parser._paused))
loop.advance(5); print(t.done(), res)

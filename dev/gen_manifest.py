"""regenerates MANIFEST.json from the table below (kept valid at all times)"""
import json, os
ROOT = os.path.dirname(os.path.dirname(os.path.abspath(__file__)))
BASE = json.load(open("/root/.vp/BASELINE.json"))["cmd"]
CLAIMED = json.load(open(os.path.join(ROOT, "dev", "claims.json")))
props = [json.loads(l) for l in open(os.path.join(ROOT, "properties.jsonl"))]
checks = []
na = []
for p in props:
    pid = p["id"]
    c = CLAIMED.get(pid)
    if c and c.get("claimed"):
        checks.append({
            "property_id": pid,
            "quick_cmd": f"./check {pid} --tier quick",
            "thorough_cmd": f"./check {pid} --tier thorough",
            "evidence_file": f"evidence/{pid}.json",
            "replay_cmd_template": f"./check {pid} --replay {{path}}",
            "engine": "symx",
            "level_claimed": {"category": "other", "text": c["text"], "design_ref": c.get("design_ref", "DESIGN.md §5")},
            "level_note": c["note"],
            "technique": c["technique"],
        })
    else:
        na.append({"property_id": pid, "reason": (c or {}).get("reason", "check not built yet in this session (see DESIGN.md §9 order of work)")})
m = {
    "version": 1,
    "setup_cmd": "./setup.sh",
    "hooks": {
        "guard": "AIOHTTP_VERIF_SYMX",
        "enable": "no source hooks: checks set AIOHTTP_VERIF_SYMX=1 and load aiohttp.* from /repo's working tree through the symx import hook (AST instrumentation at import time)",
        "baseline_off_cmd": BASE,
        "source_commits": [],
        "add_only": True,
    },
    "engines": [{
        "name": "symx", "path": "symx/",
        "serves_properties": [c["property_id"] for c in checks],
        "kind_free_text": "dynamic symbolic execution (re-execution DSE) of the real aiohttp modules with z3: symbolic bytes/str/int proxies, AST call-rewriting import hook, exact models of C builtins/re/struct, direct SMT lemmas (regex languages, integer and binary64 arithmetic) translated from the live objects",
    }],
    "checks": checks,
    "not_applicable": na,
    "notes": "exit 0 held / 1 VIOLATION (replayed on uninstrumented code, not in known_findings.json) / 3 harness error. Evidence level 'other': bounded symbolic execution + unbounded SMT lemmas; bounds are in evidence.coverage.bounds.",
}
json.dump(m, open(os.path.join(ROOT, "MANIFEST.json"), "w"), indent=1)
print("checks:", [c["property_id"] for c in checks], "n/a:", len(na))

import sys
sys.path.insert(0, "/verif"); sys.path.insert(0, "/repo")
import z3, cvc5
from lemmas import regex_lemmas as L
from aiohttp import http_parser as hp
x=z3.String("x"); s=z3.Solver(); s.add(z3.Xor(z3.InRe(x,L.to_z3(hp.TOKENRE)), z3.InRe(x,L.ref_token())))
smt2="(set-logic QF_SLIA)\n"+s.to_smt2()
print(smt2[:600])
slv=cvc5.Solver(); slv.setOption("strings-exp","true")
p=cvc5.InputParser(slv); p.setStringInput(cvc5.InputLanguage.SMT_LIB_2_6, smt2, "l"); sm=p.getSymbolManager()
while True:
    c=p.nextCommand()
    if c.isNull(): break
    print(repr(c.invoke(slv,sm)))

import sys
sys.path.insert(0, "/verif")
from symx import core
ctx = core.Ctx(); core.Ctx.cur = ctx
p = ctx.bytes("p", 2); m = ctx.bytes("m", 4)
x = p[0]; y = m[0]
print(type(x), x.bits, y.bits)
r = x ^ y
print(r.e, r.bits)
r2 = r ^ y
print(r2, getattr(r2,'e',None))

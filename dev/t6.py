import sys, traceback
sys.path.insert(0, "/verif"); sys.path.insert(0, "/repo")
from symx import hook
hook.install({"refs": "/verif"})
from symx import explore_paths as explore, core
orig = core.Ctx.realise
def realise(self, e, why):
    traceback.print_stack(limit=12); raise SystemExit
core.Ctx.realise = realise
from harness import c19
r = explore(lambda ctx: c19.termination(ctx, n=4), time_limit=20)
print(r["paths"], r["realised_why"])
r = explore(lambda ctx: c19.base64_slicing(ctx), time_limit=20)
print(r["paths"], r["realised_why"])

#!/bin/sh
# Build the tooling environment offline: overlay venv on /venv + z3/cvc5 wheels.
set -e
cd "$(dirname "$0")"
if [ ! -x .venv/bin/python ] || ! .venv/bin/python -c "import z3" 2>/dev/null; then
  rm -rf .venv
  /venv/bin/python -m venv .venv
  echo "import site; site.addsitedir('/venv/lib/python3.12/site-packages')" > .venv/lib/python3.12/site-packages/_overlay.pth
  PIP_NO_INDEX=1 .venv/bin/pip install -q --no-index --find-links /opt/veriftools/wheels z3-solver cvc5 >/dev/null
fi
.venv/bin/python -c "import z3; print('z3', z3.get_version_string())"

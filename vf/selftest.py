"""Translation validation of the instrumentation: the repository's own tests for the
anchored modules must give the same pass/fail set with and without the symx import
hook (no symbolic value is present, so every rewritten construct must behave as the
original).   usage: ./check selftest [test modules...]"""
from __future__ import annotations

import os
import subprocess
import sys
import tempfile
import xml.etree.ElementTree as ET

ROOT = os.path.dirname(os.path.dirname(os.path.abspath(__file__)))
REPO = os.environ.get("VERIF_REPO_ROOT", "/repo")
MODULES = [
    "tests/test_http_parser.py", "tests/test_streams.py", "tests/test_websocket_parser.py",
    "tests/test_websocket_writer.py", "tests/test_http_writer.py", "tests/test_cookiejar.py",
    "tests/test_urldispatch.py", "tests/test_web_urldispatcher.py", "tests/test_multipart.py",
    "tests/test_web_app.py", "tests/test_connector.py", "tests/test_client_proto.py",
    "tests/test_client_session.py", "tests/test_web_response.py", "tests/test_web_protocol.py",
    "tests/test_web_websocket.py", "tests/test_client_ws.py", "tests/test_web_functional.py",
    "tests/test_client_functional.py", "tests/test_web_sendfile.py", "tests/test_web_request.py",
    "tests/test_helpers.py", "tests/test_cookie_helpers.py",
]
# inspects the warnings stack depth: the call wrapper adds one frame
EXCLUDE = ["test_app_str_keys"]


def run(mods, with_hook, out):
    env = dict(os.environ)
    env["PYTHONPATH"] = ROOT + os.pathsep + REPO
    env["AIOHTTP_NO_EXTENSIONS"] = "1"
    cmd = [sys.executable, "-m", "pytest", "-q", "-p", "no:cacheprovider", "--timeout=900",
           "-n", "8", "--junitxml", out, "-k", " and ".join(f"not {e}" for e in EXCLUDE)] + mods
    if with_hook:
        cmd[3:3] = ["-p", "vf.pytest_symx"]
    subprocess.run(cmd, cwd=REPO, env=env, stdout=subprocess.DEVNULL, stderr=subprocess.DEVNULL)
    res = {}
    for tc in ET.parse(out).getroot().iter("testcase"):
        name = tc.get("classname", "") + "::" + tc.get("name", "")
        status = "pass"
        for ch in tc:
            if ch.tag in ("failure", "error"):
                status = "fail"
            elif ch.tag == "skipped":
                status = "skip"
        res[name] = status
    return res


def main(argv):
    mods = argv or MODULES
    with tempfile.TemporaryDirectory(dir="/var/tmp") as d:
        a = run(mods, False, os.path.join(d, "plain.xml"))
        b = run(mods, True, os.path.join(d, "hook.xml"))
    diff = {k: (a.get(k), b.get(k)) for k in set(a) | set(b) if a.get(k) != b.get(k)}
    print(f"selftest: {len(a)} tests plain, {len(b)} under the hook, {sum(v == 'pass' for v in a.values())} pass plain, "
          f"{sum(v == 'pass' for v in b.values())} pass hooked, differing: {len(diff)}")
    for k, v in sorted(diff.items())[:40]:
        print("  DIFF", k, v)
    return 1 if diff else 0


if __name__ == "__main__":
    sys.exit(main(sys.argv[1:]))

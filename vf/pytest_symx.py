"""pytest plugin: install the symx import hook before aiohttp is imported (selftest)"""
import os
import sys

sys.path.insert(0, os.path.dirname(os.path.dirname(os.path.abspath(__file__))))
from symx import hook  # noqa: E402

hook.install()

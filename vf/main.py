"""check driver:  check <ID> [--tier quick|thorough] [--replay FILE]

exit 0  property held on everything explored (KNOWN-FINDING / INCOMPLETE lines allowed)
exit 1  replayed violation not listed in known_findings.json  (VIOLATION line)
exit 3  harness error (counterexample did not reproduce, worker crashed, vacuous harness)
"""
from __future__ import annotations

import argparse
import hashlib
import importlib
import json
import os
import subprocess
import sys
import time

ROOT = os.path.dirname(os.path.dirname(os.path.abspath(__file__)))
REPO = os.environ.get("VERIF_REPO_ROOT", "/repo")
sys.path.insert(0, ROOT)


def load_known():
    p = os.path.join(ROOT, "known_findings.json")
    if not os.path.exists(p):
        return []
    with open(p) as f:
        return json.load(f).get("findings", [])


def repo_state():
    try:
        head = subprocess.run(["git", "-C", REPO, "rev-parse", "HEAD"], capture_output=True, text=True).stdout.strip()
        dirty = subprocess.run(["git", "-C", REPO, "status", "--porcelain", "--", "aiohttp"], capture_output=True,
                               text=True).stdout.strip()
        return {"head": head, "dirty_files": [l[3:] for l in dirty.splitlines()][:20]}
    except Exception as e:  # pragma: no cover
        return {"error": repr(e)}


def _jb(o):
    """bytes in job parameters travel as {"__bytes__": latin-1 text} (vf.replay turns them back)"""
    if isinstance(o, (bytes, bytearray)):
        return {"__bytes__": bytes(o).decode("latin1")}
    return str(o)


def run_replay(path, timeout=150):
    """replay a witness against the UNINSTRUMENTED modules in a clean process"""
    env = dict(os.environ)
    env["PYTHONPATH"] = REPO + os.pathsep + ROOT
    env["AIOHTTP_NO_EXTENSIONS"] = "1"
    env.pop("AIOHTTP_VERIF_SYMX", None)
    def _limit():
        import resource

        lim = int(os.environ.get("VERIF_WORKER_MEM_GB", "12")) << 30
        resource.setrlimit(resource.RLIMIT_AS, (lim, resource.getrlimit(resource.RLIMIT_AS)[1]))

    try:
        p = subprocess.run([sys.executable, "-m", "vf.replay", path], capture_output=True, text=True,
                           timeout=timeout, env=env, cwd=ROOT, preexec_fn=_limit)
    except subprocess.TimeoutExpired:
        return {"reproduced": True, "key": "replay-timeout", "detail": "replay did not finish (hang)"}
    for line in reversed(p.stdout.splitlines()):
        if line.startswith("REPLAY-RESULT "):
            return json.loads(line[len("REPLAY-RESULT "):])
    return {"reproduced": False, "key": "replay-crashed", "detail": (p.stdout + p.stderr)[-2000:]}


def main(argv=None):
    ap = argparse.ArgumentParser()
    ap.add_argument("pid")
    ap.add_argument("--tier", default=os.environ.get("VERIF_TIER", "quick"), choices=["quick", "thorough"])
    ap.add_argument("--replay")
    ap.add_argument("--only", default=None, help="substring filter on job names (development)")
    ap.add_argument("--nproc", type=int, default=int(os.environ.get("VERIF_NPROC", "16")))
    ap.add_argument("--no-evidence", action="store_true")
    ap.add_argument("--replay-dir", default=None, help="where replay files go (default /verif/replays/<id>)")
    ap.add_argument("--budget", type=float, default=None,
                    help="wall seconds for the exploration (default: harness BUDGET[tier], else 110 quick / 1200 thorough)")
    a = ap.parse_args(argv)
    pid = a.pid.upper()
    seed = int(os.environ.get("VERIF_SEED", "0") or 0)
    known = [k for k in load_known() if k.get("property") == pid and k.get("status", "open") == "open"]
    known_keys = {k["key"]: k for k in known}

    if a.replay:
        r = run_replay(a.replay)
        print(json.dumps(r, indent=1))
        if r["reproduced"]:
            if r["key"] in known_keys:
                print(f"KNOWN-FINDING: property={pid} {known_keys[r['key']]['what']}")
                return 0
            print(f"VIOLATION property={pid} replay={a.replay}")
            return 1
        return 0

    t0 = time.time()
    os.environ["AIOHTTP_VERIF_SYMX"] = "1"
    os.environ["AIOHTTP_NO_EXTENSIONS"] = "1"
    sys.path.insert(0, REPO)
    hmod = importlib.import_module(f"harness.{pid.lower()}")
    import symx.explore as ex

    jobs = []
    for j in hmod.jobs(a.tier):
        j = dict(j)
        j.setdefault("module", f"harness.{pid.lower()}")
        j.setdefault("extra_roots", {"refs": ROOT})
        jobs.append(j)
    if a.only:
        jobs = [j for j in jobs if any(x and x in j["name"] for x in a.only.replace("\\|", "|").split("|"))]
    if seed:
        import random

        random.Random(seed).shuffle(jobs)
    # vacuity twins
    twins = []
    for j in getattr(hmod, "twins", lambda tier: [])(a.tier):
        j = dict(j)
        j.setdefault("module", f"harness.{pid.lower()}")
        j.setdefault("extra_roots", {"refs": ROOT})
        j["twin"] = True
        twins.append(j)

    done = [0]

    def progress(i, r):
        done[0] += 1
        if os.environ.get("VERIF_VERBOSE"):
            print(f"  [{done[0]}/{len(jobs) + len(twins)}] {r['job']['name']}: paths={r['paths']} "
                  f"viol={len(r['violations'])} t={r.get('wall_s', 0):.1f}s "
                  f"{'FATAL' if r.get('fatal') else ''}", flush=True)

    budget = a.budget or float(os.environ.get("VERIF_BUDGET_S", 0) or 0) or \
        getattr(hmod, "BUDGET", {}).get(a.tier) or (110.0 if a.tier == "quick" else 1200.0)
    slice_s = 25.0 if a.tier == "quick" else 120.0
    # long jobs first: the pool is FIFO and the tail is what work sharing has to spread
    order = sorted(range(len(jobs)), key=lambda i: -float(jobs[i].get("weight", 0)))
    jobs = [jobs[i] for i in order]
    results = ex.run_jobs(jobs + twins, nproc=a.nproc, progress=progress, budget_s=budget, slice_s=slice_s)
    main_res = [r for r, j in zip(results, jobs + twins) if not j.get("twin")]
    twin_res = [r for r, j in zip(results, jobs + twins) if j.get("twin")]

    harness_errors = []
    for r in results:
        if r.get("fatal"):
            harness_errors.append(f"job {r['job']['name']} crashed: {r['fatal'][-800:]}")
    for r in twin_res:
        if not r["violations"]:
            harness_errors.append(f"vacuity twin {r['job']['name']} produced no counterexample")

    # lemmas (direct SMT, no bound)
    lemma_results = []
    if hasattr(hmod, "lemmas"):
        lemma_results = hmod.lemmas(a.tier)

    # ---- triage violations: replay each distinct witness on uninstrumented code
    viol_lines = []
    known_lines = []
    n_viol = 0
    replay_dir = os.path.join(a.replay_dir, pid) if a.replay_dir else os.path.join(ROOT, "replays", pid)
    seen = set()
    reported_keys = set()
    replays = []
    # Every distinct witness is replayed (in parallel, clean interpreters).  Witnesses are taken
    # round-robin over jobs and symbolic tags so that many witnesses of one (possibly known)
    # finding cannot crowd out a different violation; replays that resolve to a listed finding do
    # not count towards the cap, only unlisted ones do.
    max_unlisted = 60
    max_total = 4000
    per_group = {}
    for r in main_res:
        for v in r["violations"]:
            blob = json.dumps({"job": r["job"], "witness": v["witness"]}, sort_keys=True, default=_jb)
            h = hashlib.sha1(blob.encode()).hexdigest()[:12]
            if h in seen:
                continue
            seen.add(h)
            per_group.setdefault((r["job"]["name"], v["tag"]), []).append((h, r, v))
    ordered = []
    depth = 0
    while any(len(g) > depth for g in per_group.values()):
        for g in per_group.values():
            if len(g) > depth:
                ordered.append(g[depth])
        depth += 1
    ordered = ordered[:max_total]
    skipped_replays = max(0, sum(len(g) for g in per_group.values()) - len(ordered))

    def _replay_one(item):
        h, r, v = item
        os.makedirs(replay_dir, exist_ok=True)
        path = os.path.join(replay_dir, f"{h}.json")
        with open(path, "w") as f:
            json.dump({"property": pid, "job": r["job"], "witness": v["witness"], "tag": v["tag"],
                       "info": v.get("info")}, f, indent=1, default=_jb)
        rr = run_replay(path)
        rr["path"] = path
        rr["tag"] = v["tag"]
        return rr

    import concurrent.futures as _cf

    n_unlisted = 0
    pos = 0
    with _cf.ThreadPoolExecutor(max_workers=max(1, min(a.nproc, 16))) as tp:
        while pos < len(ordered) and n_unlisted < max_unlisted:
            batch = ordered[pos:pos + 64]
            pos += len(batch)
            for (h, r, v), rr in zip(batch, tp.map(_replay_one, batch)):
                path = rr["path"]
                replays.append(rr)
                if not rr["reproduced"]:
                    harness_errors.append(
                        f"counterexample {path} ({v['tag']}) did not reproduce on uninstrumented code: "
                        f"{rr.get('detail', '')[:500]}")
                    continue
                key = rr["key"]
                if str(key).startswith("HARNESS-UNCAUGHT:"):
                    harness_errors.append(f"the harness itself raised on witness {path}: {key}: {rr.get('detail', '')[-400:]}")
                    continue
                if key in known_keys:
                    if key not in reported_keys:
                        known_lines.append(f"KNOWN-FINDING: property={pid} {known_keys[key]['what']} [key={key}]")
                        reported_keys.add(key)
                    os.remove(path)
                else:
                    n_viol += 1
                    n_unlisted += 1
                    if key not in reported_keys:
                        viol_lines.append(f"VIOLATION property={pid} replay={path}  # {key}: {rr.get('detail', '')[:300]}")
                        reported_keys.add(key)
                    elif n_unlisted > 8:
                        os.remove(path)
    if pos < len(ordered) or skipped_replays:
        incomplete_replays = len(ordered) - pos + skipped_replays
    else:
        incomplete_replays = 0
    for lr in lemma_results:
        if lr["status"] == "sat":
            key = lr.get("key", "lemma:" + lr["name"])
            if key in known_keys:
                known_lines.append(f"KNOWN-FINDING: property={pid} {known_keys[key]['what']} [key={key}]")
            else:
                n_viol += 1
                os.makedirs(replay_dir, exist_ok=True)
                path = os.path.join(replay_dir, f"lemma-{lr['name']}.json")
                with open(path, "w") as f:
                    json.dump({"property": pid, "lemma": lr}, f, indent=1, default=str)
                viol_lines.append(f"VIOLATION property={pid} replay={path}  # lemma {lr['name']} refuted: {lr.get('witness')}")
        elif lr["status"] == "error":
            harness_errors.append(f"lemma {lr['name']}: {lr.get('detail')}")

    # ---- aggregate
    agg = {k: sum(r.get(k, 0) for r in main_res) for k in
           ("paths", "checks", "unknown", "realised_paths", "step_budget_hits", "obligations", "discharged",
            "infeasible", "pending_prefixes", "nontrivial")}
    agg["solver_s"] = round(sum(r.get("solver_s", 0) for r in main_res), 2)
    timed_out = [r["job"]["name"] for r in main_res if r.get("timed_out")]
    entered = sorted(set().union(*[set(r.get("entered", [])) for r in main_res])) if main_res else []
    notes = sorted(set().union(*[set(r.get("notes", [])) for r in main_res])) if main_res else []
    outcomes = {}
    for r in main_res:
        for k, v in r["outcomes"].items():
            outcomes[k] = outcomes.get(k, 0) + v
    realised_why = {}
    for r in main_res:
        for k, v in r.get("realised_why", {}).items():
            realised_why[k] = realised_why.get(k, 0) + v
    exhaustive = (not timed_out and agg["unknown"] == 0 and agg["realised_paths"] == 0
                  and agg["pending_prefixes"] == 0 and not harness_errors)
    lem_unknown = [l["name"] for l in lemma_results if l["status"] == "unknown"]
    required = getattr(hmod, "REQUIRED_OUTCOMES", ())
    unreached = [req for req in required if not any(k.startswith(req) for k in outcomes)]
    if unreached and not timed_out and not a.only:
        # every job ran to its end and an outcome class the harness is built to reach never occurred:
        # the harness no longer exercises what it claims to
        for req in unreached:
            harness_errors.append(f"reachability witness '{req}' not reached by any path")

    incomplete = []
    if timed_out:
        incomplete.append(f"{len(timed_out)} job(s) hit their time budget: {timed_out[:6]}")
        if unreached:
            incomplete.append(f"outcome classes not reached before the budget ran out: {unreached}")
    if incomplete_replays and not viol_lines:
        incomplete.append(f"{incomplete_replays} counterexample candidates were not replayed (cap)")
    if agg["unknown"]:
        incomplete.append(f"{agg['unknown']} solver queries returned unknown")
    if agg["realised_paths"]:
        incomplete.append(f"{agg['realised_paths']} paths realised a symbolic value: {realised_why}")
    if lem_unknown:
        incomplete.append(f"lemmas undischarged: {lem_unknown}")
    for s in incomplete:
        print(f"INCOMPLETE property={pid} {s}")
    for s in known_lines:
        print(s)
    for s in viol_lines:
        print(s)
    for s in harness_errors:
        print(f"HARNESS-ERROR property={pid} {s}")

    wall = time.time() - t0
    samples = []
    for r in main_res:
        for s in r.get("samples", [])[:2]:
            samples.append({"job": r["job"]["name"], **s})
        if len(samples) >= 16:
            break
    for lr in lemma_results[:6]:
        samples.append({"lemma": lr["name"], "status": lr["status"], "solver": lr.get("solver"), "time_s": lr.get("time_s")})
    n_lem = len(lemma_results)
    n_lem_ok = sum(1 for l in lemma_results if l["status"] == "unsat")
    ev = {
        "property_id": pid,
        "tier": a.tier,
        "seed": seed,
        "level": "other",
        "coverage": {
            "explanation": getattr(hmod, "EXPLANATION", "") + (
                " Deciding step: z3 on path conditions of the real aiohttp functions executed symbolically "
                "(symx, re-execution DSE); every explored path ends with the query PC AND NOT property; "
                "unsat on every path of a completed job = holds for all values inside the job's bound."),
            "evaluations": agg["paths"] + n_lem,
            "distinct_nontrivial": agg["nontrivial"] + n_lem,
            "rule": "one evaluation = one execution path of the harness through the real code under a distinct, "
                    "solver-feasible decision prefix (path conditions are pairwise disjoint), plus one per SMT lemma; "
                    "non-trivial = the path entered >=1 instrumented aiohttp function and took >=1 solver-decided branch",
            "samples": samples or [{"note": "no paths"}],
            "obligations": agg["obligations"] + n_lem,
            "discharged": agg["discharged"] + n_lem_ok,
            "exhaustive": bool(exhaustive and not lem_unknown),
            "checker_cmd": f"./check {pid} --tier {a.tier}",
            "trusted_base": ["z3 4.x (z3-solver wheel)", "symx proxies/models (translation-validated by ./check selftest)",
                             "CPython 3.12"] + list(getattr(hmod, "TRUSTED", [])),
            "jobs": len(main_res),
            "jobs_timed_out": timed_out,
            "paths": agg["paths"],
            "infeasible_prefixes": agg["infeasible"],
            "solver_queries": agg["checks"],
            "solver_time_s": agg["solver_s"],
            "solver_unknown": agg["unknown"],
            "realised_paths": agg["realised_paths"],
            "realised_why": realised_why,
            "step_budget_hits": agg["step_budget_hits"],
            "outcome_classes": outcomes,
            "functions_executed_symbolically": entered,
            "bounds": getattr(hmod, "bounds", lambda t: {})(a.tier),
            "lemmas": lemma_results,
            "notes": notes,
            "known_findings_matched": sorted(k for k in reported_keys if k in known_keys),
            "replays": [{k: r.get(k) for k in ("path", "tag", "reproduced", "key")} for r in replays][:40],
            "vacuity_twins": [{"job": r["job"]["name"], "counterexamples": len(r["violations"])} for r in twin_res],
            "repo": repo_state(),
        },
        "assumptions": list(getattr(hmod, "ASSUMPTIONS", [])),
        "wall_s": round(wall, 2),
        "violations": n_viol,
    }
    if not a.no_evidence:
        os.makedirs(os.path.join(ROOT, "evidence"), exist_ok=True)
        with open(os.path.join(ROOT, "evidence", f"{pid}.json"), "w") as f:
            json.dump(ev, f, indent=1, default=str)
        if a.tier == "thorough":
            # the quick run of the next change overwrites <id>.json: keep the last thorough record too
            os.makedirs(os.path.join(ROOT, "evidence", "thorough"), exist_ok=True)
            with open(os.path.join(ROOT, "evidence", "thorough", f"{pid}.json"), "w") as f:
                json.dump(ev, f, indent=1, default=str)
    print(f"property={pid} tier={a.tier} jobs={len(main_res)} paths={agg['paths']} queries={agg['checks']} "
          f"obligations={agg['obligations'] + n_lem} discharged={agg['discharged'] + n_lem_ok} "
          f"solver_s={agg['solver_s']} wall_s={wall:.1f} exhaustive={ev['coverage']['exhaustive']} "
          f"violations={n_viol} known={len(known_lines)}")
    if n_viol:
        return 1
    if harness_errors:
        return 3
    return 0


if __name__ == "__main__":
    sys.exit(main())

"""Replay a solver witness against the uninstrumented aiohttp from /repo.

usage: python -m vf.replay <file.json>
prints `REPLAY-RESULT {json}`; the harness function is executed natively on the
concrete inputs (ConcreteCtx) — no import hook, no proxies, no solver.
"""
from __future__ import annotations

import importlib
import json
import os
import sys
import traceback

ROOT = os.path.dirname(os.path.dirname(os.path.abspath(__file__)))
REPO = os.environ.get("VERIF_REPO_ROOT", "/repo")


def main(path):
    sys.path.insert(0, ROOT)
    sys.path.insert(0, REPO)
    os.environ["AIOHTTP_NO_EXTENSIONS"] = "1"
    sys.setrecursionlimit(20000)
    with open(path) as f:
        rec = json.load(f, object_hook=lambda d: d["__bytes__"].encode("latin1") if set(d) == {"__bytes__"} else d)
    import aiohttp

    assert os.path.realpath(aiohttp.__file__).startswith(os.path.realpath(REPO) + os.sep), aiohttp.__file__
    from symx.core import Abort, ConcreteCtx, StepBudget
    from symx.explore import Violation

    job = rec["job"]
    mod = importlib.import_module(job["module"])
    fn = getattr(mod, job["func"])
    ctx = ConcreteCtx(rec["witness"])
    out = {"reproduced": False, "key": None, "detail": ""}
    try:
        r = fn(ctx, **job.get("params", {}))
        prop, tag = r[0], r[1]
        info = r[2] if len(r) > 2 else None
        if not bool(prop):
            out["reproduced"] = True
            out["tag"] = tag
            out["detail"] = json.dumps(info, default=str)[:1500] if info is not None else tag
            out["key"] = (info or {}).get("key") if isinstance(info, dict) else None
    except Violation as v:
        out.update(reproduced=True, tag="VIOLATION:" + v.tag, detail=str(v.detail)[:1500])
        out["key"] = v.tag
    except Abort:
        out.update(reproduced=False, detail="assumption not met by witness")
    except StepBudget:
        out.update(reproduced=True, key="step-budget", detail="step budget exhausted on concrete replay")
    except Exception as e:
        tb = traceback.extract_tb(e.__traceback__)
        where = f"{os.path.basename(tb[-1].filename)}:{tb[-1].name}" if tb else "?"
        in_harness = bool(tb) and ("/verif/harness/" in tb[-1].filename or "/verif/refs/" in tb[-1].filename
                                    or "/verif/symx/" in tb[-1].filename)
        # an exception raised by a line of the harness itself (say, an internal attribute it looks at is
        # gone) says the harness no longer fits the code, not that the property is broken
        out.update(reproduced=True, key=("HARNESS-UNCAUGHT:" if in_harness else "UNCAUGHT:") + f"{type(e).__name__}@{where}",
                   detail="".join(traceback.format_exception(type(e), e, e.__traceback__))[-1500:])
    if out["reproduced"] and not out["key"]:
        key_fn = getattr(mod, "finding_key", None)
        out["key"] = key_fn(job, rec["witness"], out) if key_fn else out.get("tag", "unclassified")
    print("REPLAY-RESULT " + json.dumps(out))
    return 0


if __name__ == "__main__":
    sys.exit(main(sys.argv[1]))

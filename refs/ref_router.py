"""Reference for the documented URL resolution rule (docs/web_reference.rst,
"Resource"): a *linear* specification with no index.

  1. Resources are grouped by their fixed prefix (the text before the first '{',
     cut back to a '/' boundary; a template without variables is its own prefix).
     The request path is matched against groups from the longest '/'-boundary
     prefix of the path to the shortest ('/'): longest fixed prefix first.
  2. Inside a group: registration order.
  3. A resource matches when the whole path matches its template: '{v}' is one or
     more characters other than '/', '{', '}'; '{v:re}' is the regular expression.
  4. The first resource that matches the path AND has a route for the method (or the
     wildcard) wins.  405 with the union of the allowed methods of all path-matching
     resources if some matched the path but none the method; 404 if none matched.
Templates are given as lists of segments so that nothing is parsed from aiohttp.
"""
import re

GOOD = r"[^{}/]+"


class Res:
    def __init__(self, template, methods, ident):
        self.template = template  # e.g. "/a/{v:\\d+}"
        self.methods = tuple(methods)
        self.ident = ident
        self.fixed, self.regex, self.vars = compile_template(template)


def compile_template(t):
    """own translation of a path template to a regular expression"""
    out = ""
    vars_ = []
    i = 0
    fixed = None
    while i < len(t):
        c = t[i]
        if c == "{":
            if fixed is None:
                fixed = t[:i]
            depth = 1
            j = i + 1
            while j < len(t) and depth:
                if t[j] == "{":
                    depth += 1
                elif t[j] == "}":
                    depth -= 1
                j += 1
            body = t[i + 1:j - 1]
            if ":" in body:
                name, rx = body.split(":", 1)
            else:
                name, rx = body, GOOD
            vars_.append(name)
            out += "(?P<%s>%s)" % (name, rx)
            i = j
        else:
            out += re.escape(c)
            i += 1
    if fixed is None:
        key = t
    else:
        key = fixed.rpartition("/")[0]
    key = key.rstrip("/") or "/"
    return key, re.compile(out), vars_


def prefixes(path):
    """'/one/two' -> ['/one/two', '/one', '/'] (longest to shortest, '/' boundaries)"""
    out = []
    part = path
    while part:
        out.append(part)
        if part == "/":
            break
        part = part.rpartition("/")[0] or "/"
    return out


def unquote_safe(v):
    # documented: match_info values are percent-decoded except %2F / %25 handled by path_safe
    if "%" not in v:
        return v
    return v.replace("%2F", "/").replace("%25", "%")


class SubApp:
    """add_subapp(prefix, app): 'if request's path starts with prefix then further
    resolving is passed to subapp' - the sub-application owns everything under the
    prefix, its own 404/405 are final"""

    def __init__(self, prefix, resources):
        self.fixed = prefix
        self.resources = resources  # templates already carry the prefix


def resolve(resources, path, method, prefix=""):
    """-> ("ok", ident, match_dict) | ("405", allowed_set) | ("404",)"""
    allowed = set()
    for part in prefixes(path):
        for r in resources:
            if r.fixed != part:
                continue
            if isinstance(r, SubApp):
                return resolve(r.resources, path, method)
            m = r.regex.fullmatch(path)
            if m is None:
                continue
            if method in r.methods or "*" in r.methods:
                # the route registered for this very method, else the catch-all one ("*")
                which = method if method in r.methods else "*"
                return ("ok", (r.ident, which), {k: unquote_safe(v) for k, v in m.groupdict().items()})
            for x in r.methods:
                allowed.add(x)
    if allowed:
        return ("405", allowed)
    return ("404",)

"""RFC 6265 reference cookie store (sections 5.1.3, 5.1.4, 5.3, 5.4), written from
the RFC text.  Strings are concrete here (the harness selects them by symbolic
indices); time is an integer clock supplied by the caller.

Documented aiohttp policy reproduced on purpose (docs/client_reference.rst,
CookieJar): cookies set from an IP-address host are not stored unless unsafe=True.
"""


def is_ip(host):
    return ":" in host or host.replace(".", "").isdigit()


def domain_match(string, domain_string):
    """5.1.3: does `string` (a host) domain-match `domain_string`?"""
    if string == domain_string:
        return True
    if not string.endswith(domain_string):
        return False
    if string[: len(string) - len(domain_string)][-1:] != ".":
        return False
    return not is_ip(string)


def default_path(uri_path):
    """5.1.4"""
    if not uri_path or uri_path[0] != "/":
        return "/"
    if uri_path.count("/") <= 1:
        return "/"
    return uri_path[: uri_path.rfind("/")]


def path_match(request_path, cookie_path):
    """5.1.4"""
    if request_path == cookie_path:
        return True
    if request_path.startswith(cookie_path):
        if cookie_path.endswith("/"):
            return True
        if request_path[len(cookie_path)] == "/":
            return True
    return False


class Cookie:
    def __init__(self, name, value, domain, path, host_only, secure, expiry):
        self.name = name
        self.value = value
        self.domain = domain
        self.path = path
        self.host_only = host_only
        self.secure = secure
        self.expiry = expiry  # None = session


class Store:
    def __init__(self, unsafe=False):
        self.cookies = []
        self.unsafe = unsafe

    def expire(self, now):
        self.cookies = [c for c in self.cookies if c.expiry is None or c.expiry > now]

    def set_cookie(self, now, request_host, request_path, name, value, domain_attr, path_attr, secure, max_age):
        """5.3 (Max-Age only; Expires text is outside the harness alphabet)"""
        request_host = request_host.lower()
        if is_ip(request_host) and not self.unsafe:
            return
        expiry = None
        if max_age is not None:
            expiry = now + max_age if max_age > 0 else -1  # <= 0: earliest representable date
        domain_attr = (domain_attr or "").lower()
        if domain_attr.startswith("."):
            domain_attr = domain_attr[1:]
        if domain_attr:
            if not domain_match(request_host, domain_attr):
                return  # step 6: ignore the cookie entirely
            host_only = False
            domain = domain_attr
        else:
            host_only = True
            domain = request_host
        if path_attr and path_attr[0] == "/":
            path = path_attr
        else:
            path = default_path(request_path)
        # step 11: same name / domain / path replaces the old cookie
        self.cookies = [c for c in self.cookies if not (c.name == name and c.domain == domain and
                                                        c.path.rstrip("/") == path.rstrip("/"))]
        c = Cookie(name, value, domain, path, host_only, secure, expiry)
        if expiry is not None and expiry <= now:
            return  # already expired: stored cookie (if any) was evicted above, nothing is kept
        self.cookies.append(c)

    def clear(self):
        self.cookies = []

    def clear_domain(self, domain):
        self.cookies = [c for c in self.cookies if not domain_match(c.domain, domain)]

    def select(self, now, host, path, secure_scheme):
        """5.4 step 1: the cookies to attach, as list of (name, value)"""
        self.expire(now)
        host = host.lower()
        out = []
        for c in self.cookies:
            if c.host_only:
                if host != c.domain:
                    continue
            elif not domain_match(host, c.domain):
                continue
            if not path_match(path or "/", c.path):
                continue
            if c.secure and not secure_scheme:
                continue
            out.append((c.name, c.value))
        return out

"""Reference WebSocket frame decoder written from RFC 6455 (sections 5.2, 5.4,
5.5, 7.4.1/7.4.2, 8.1) only.  Uncompressed streams (RSV1 is a violation).

decode(data, max_size, decode_text, eq_rejects) ->
    (messages, err_codes, early, at_boundary, rule)
messages : list of (opcode, payload, extra) delivered before the first violation
err_codes: None or tuple of acceptable close codes for the first violation
early    : the violating frame was not complete in `data` (a decoder working on
           complete frames would not have reported it yet)
rule     : name of the violated rule (None if no violation)
at_boundary: some message had exactly max_size bytes (the property only fixes
           the behaviour above the limit)
"""

COMPRESSED = "<compressed>"
OP_CONT, OP_TEXT, OP_BIN, OP_CLOSE, OP_PING, OP_PONG = 0, 1, 2, 8, 9, 10

# RFC 6455 7.4.1 + IANA registry entries the implementation's enum lists
DEFINED_CLOSE_CODES = (1000, 1001, 1002, 1003, 1007, 1008, 1009, 1010, 1011, 1012, 1013, 1014)


def close_code_ok(code):
    # 7.4.2: 0-999 unused; 1000-2999 protocol-reserved (only defined ones valid on
    # the wire; 1004/1005/1006/1015 must not be sent); 3000-4999 valid
    if code > 4999:
        return False
    if code >= 3000:
        return True
    return code in DEFINED_CLOSE_CODES


def decode(data, max_size, decode_text, eq_rejects=True, compress=False):
    pos = 0
    n = len(data)
    msgs = []
    frag_op = None  # opcode of the fragmented message in progress
    frag = b""
    frag_compressed = False
    at_boundary = False
    while True:
        if n - pos < 2:
            return msgs, None, False, at_boundary, None
        b0 = data[pos]
        b1 = data[pos + 1]
        fin = b0 >= 128
        rsv = (b0 // 16) % 8
        opcode = b0 % 16
        masked = b1 >= 128
        l7 = b1 % 128
        rsv1 = False
        if compress and rsv >= 4 and opcode in (OP_TEXT, OP_BIN):
            # RFC 7692 6: RSV1 marks the first frame of a compressed message
            rsv1 = True
            rsv = rsv - 4
        if rsv != 0:
            # with an extension negotiated a reader may notice the size cap of a
            # data frame before it notices the misplaced RSV1
            return msgs, ((1002, 1009) if (compress and max_size and opcode < 8) else (1002,)), True, at_boundary, "rsv"
        if opcode not in (OP_CONT, OP_TEXT, OP_BIN, OP_CLOSE, OP_PING, OP_PONG):
            return msgs, (1002,), True, at_boundary, "opcode"
        if opcode >= 8:
            if not fin:
                return msgs, (1002,), True, at_boundary, "control-fragmented"
            if l7 > 125:
                return msgs, (1002,), True, at_boundary, "control-too-long"
        # sequencing rules (5.4) are properties of the first header byte: a decoder may report them
        # before the rest of the header has arrived
        seq_err = False
        # a frame that breaks sequencing may also trip the size cap first
        seq_codes = (1002, 1009) if max_size else (1002,)
        seq_rule = None
        if opcode == OP_CONT and frag_op is None:
            seq_err = True
            seq_rule = "continuation-without-start"
        if opcode in (OP_TEXT, OP_BIN) and frag_op is not None:
            seq_err = True
            seq_rule = "data-frame-inside-fragmented-message"
        p = pos + 2
        if l7 == 126:
            if n - p < 2:
                if seq_err:
                    return msgs, seq_codes, True, at_boundary, seq_rule
                return msgs, None, False, at_boundary, None
            plen = data[p] * 256 + data[p + 1]
            p += 2
        elif l7 == 127:
            if n - p < 8:
                if seq_err:
                    return msgs, seq_codes, True, at_boundary, seq_rule
                return msgs, None, False, at_boundary, None
            plen = 0
            for i in range(8):
                plen = plen * 256 + data[p + i]
            p += 8
            if plen >= 2 ** 63:
                # 5.2: most significant bit MUST be 0
                return msgs, (1009, 1002), True, at_boundary, "len64-msb"
        else:
            plen = l7
        if max_size and opcode < 8 and not seq_err:
            total = plen + len(frag)
            if total > max_size:
                return msgs, (1009,), True, at_boundary, "too-big"
            if total == max_size:
                at_boundary = True
                if eq_rejects:
                    return msgs, (1009,), True, at_boundary, "too-big-eq"
        if masked:
            if n - p < 4:
                if seq_err:
                    return msgs, seq_codes, True, at_boundary, seq_rule
                return msgs, None, False, at_boundary, None
            mask = data[p:p + 4]
            p += 4
        if n - p < plen:
            if seq_err:
                return msgs, seq_codes, True, at_boundary, seq_rule
            return msgs, None, False, at_boundary, None
        payload = data[p:p + plen]
        if masked:
            payload = bytes([payload[i] ^ mask[i % 4] for i in range(plen)])
        pos = p + plen
        if seq_err:
            return msgs, seq_codes, False, at_boundary, seq_rule
        # ---- complete frame
        if opcode >= 8:
            if opcode == OP_CLOSE:
                if plen == 1:
                    return msgs, (1002,), False, at_boundary, "close-payload-1byte"
                if plen >= 2:
                    code = payload[0] * 256 + payload[1]
                    if not close_code_ok(code):
                        return msgs, (1002,), False, at_boundary, ("close-code", code)
                    try:
                        reason = payload[2:].decode("utf-8")
                    except UnicodeDecodeError:
                        return msgs, (1007,), False, at_boundary, "close-reason-utf8"
                    msgs.append((OP_CLOSE, code, reason))
                else:
                    msgs.append((OP_CLOSE, 0, ""))
            else:
                msgs.append((opcode, payload, None))
            continue
        if opcode != OP_CONT:
            frag_op = opcode
            frag = b""
            frag_compressed = rsv1
        frag = frag + payload
        if not fin:
            continue
        mop = frag_op
        body = frag
        frag_op = None
        frag = b""
        if frag_compressed:
            # content is whatever the (stubbed) inflater yields: opaque here
            msgs.append((mop, COMPRESSED, None))
            continue
        if mop == OP_TEXT and decode_text:
            try:
                text = body.decode("utf-8")
            except UnicodeDecodeError:
                return msgs, (1007,), False, at_boundary, "text-utf8"
            msgs.append((OP_TEXT, text, None))
        elif mop == OP_TEXT:
            # documented raw mode (decode_text=False): payload handed over as
            # bytes, undecoded and therefore unvalidated
            msgs.append((OP_TEXT, body, None))
        else:
            msgs.append((OP_BIN, body, None))

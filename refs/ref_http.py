"""Strict reader for HTTP/1.x request streams, written from RFC 9112 / RFC 9110
(not from aiohttp).  Works on bytes and on symx SBytes.

parse_requests(data) -> Result
  .msgs     list of Msg (the last one may be incomplete: .complete False)
  .status   "ok" | "incomplete" | "reject"
  .reason   rule that rejected (status == "reject")
  .soft     None | (index, rule): first place where the RFC leaves the recipient a
            choice between rejecting and accepting (parsing went on as "accept")
  .tail     bytes after an accepted Upgrade/CONNECT request (opaque to HTTP)

MUST-reject rules implemented (RFC 9112 unless noted):
  2.2   bare LF (or any LF not preceded by CR) where CRLF is required; bare CR
  3     request-line = token SP request-target SP "HTTP/" DIGIT "." DIGIT, single SP
  3.2   request-target: no whitespace / control bytes; origin-form, absolute-form, authority-form (CONNECT), asterisk-form (OPTIONS)
  3.2   HTTP/1.1 request without exactly one Host  (400)
  5.1   no whitespace between field name and colon; field-name = token
  5.2   obsolete line folding in a request (400)
  5.5 (RFC 9110) CR, LF, NUL and other CTLs (except HTAB) in field values
  6.1   Transfer-Encoding: final coding must be chunked, chunked at most once
  6.3   Transfer-Encoding together with Content-Length (400 per the property)
  6.3 / 8.6 (RFC 9110) Content-Length must be 1*DIGIT; repeated Content-Length
  7.1   chunk-size = 1*HEXDIG; CRLF after chunk data; trailer fields as field lines
  7.1.1 chunk-ext without control bytes
"""
from refs.util import (CTL_EXCEPT_HTAB, DIGIT, FIELD_VALUE_OK, HEXDIG, TCHAR, all_in,
                       any_in, dec_value, hex_value, ieq)

SINGLETON_MUST = (b"content-length", b"host", b"transfer-encoding")
# RFC 9110 singleton fields whose repetition a recipient may reject or tolerate
SINGLETON_MAY = (b"content-type", b"content-location", b"content-range", b"etag",
                 b"max-forwards", b"server", b"user-agent")


class Msg:
    def __init__(self):
        self.method = None
        self.target = None
        self.version = None
        self.headers = []
        self.body = b""
        self.chunked = False
        self.chunk_sizes = []
        self.complete = False
        self.upgrade = False
        self.close = None


class Result:
    def __init__(self):
        self.msgs = []
        self.status = "ok"
        self.reason = None
        self.soft = None
        self.tail = b""
        self.doomed = None

    def reject(self, why):
        self.status = "reject"
        self.reason = why
        return self

    def softly(self, why):
        if self.soft is None:
            self.soft = (len(self.msgs), why)


def _find_crlf(data, start):
    return data.find(b"\r\n", start)


def _header(msg, name):
    """values of header `name` (lower-case literal), in order"""
    return [v for (n, v) in msg.headers if ieq(n, name)]


def _split_list(value):
    """comma separated list -> elements with OWS trimmed"""
    return [p.strip(b" \t") for p in value.split(b",")]


def parse_field_line(line, res):
    """returns (name, value) or None after res.reject(...)"""
    i = line.find(b":")
    if i < 0:
        res.reject("field-line-without-colon")
        return None
    name = line[:i]
    if len(name) == 0:
        res.reject("empty-field-name")
        return None
    if not all_in(name, TCHAR):
        # includes whitespace before the colon / leading whitespace (obs-fold)
        res.reject("field-name-not-token")
        return None
    value = line[i + 1:].strip(b" \t")
    if not all_in(value, FIELD_VALUE_OK):
        res.reject("ctl-in-field-value")
        return None
    return (name, value)


def parse_requests(data, max_msgs=8, honour_upgrade=True):
    res = Result()
    n = len(data)
    pos = 0
    while True:
        # RFC 9112 2.2: ignore empty line(s) received prior to the request-line
        while data[pos:pos + 2] == b"\r\n":
            pos += 2
        if pos >= n:
            return res
        if len(res.msgs) >= max_msgs:
            return res
        # ---- header block: lines up to the empty line
        lines = []
        p = pos
        doomed = None
        while True:
            e = _find_crlf(data, p)
            if e < 0:
                # block not complete: nothing can be concluded yet, except that a
                # bare LF already seen dooms the message (a recipient may say so now)
                if doomed is None and b"\n" in data[p:]:
                    doomed = "bare-lf"
                res.status = "incomplete"
                res.doomed = doomed
                return res
            line = data[p:e]
            if doomed is None and b"\n" in line:
                doomed = "bare-lf"
            p = e + 2
            if len(line) == 0:
                break
            lines.append(line)
        if doomed is not None:
            return res.reject(doomed)
        # ---- request line
        msg = Msg()
        rl = lines[0]
        parts = rl.split(b" ")
        if len(parts) != 3:
            return res.reject("request-line-shape")
        method, target, version = parts
        if len(method) == 0 or not all_in(method, TCHAR):
            return res.reject("method-not-token")
        if len(target) == 0:
            return res.reject("empty-target")
        if any_in(target, CTL_EXCEPT_HTAB) or b"\t" in target:
            return res.reject("ctl-in-request-target")
        if len(version) != 8 or version[:5] != b"HTTP/" or version[6:7] != b"." \
                or not all_in(version[5:6], DIGIT) or not all_in(version[7:8], DIGIT):
            return res.reject("http-version")
        # RFC 9112 3.2: origin-form | absolute-form | authority-form (CONNECT only) | asterisk-form (OPTIONS only)
        if method == b"CONNECT":
            if b"/" in target or b":" not in target:
                res.softly("connect-target-not-host-port")  # what else passes for an authority is the URL library's call
        elif target == b"*":
            if method != b"OPTIONS":
                return res.reject("asterisk-form-without-OPTIONS")
        elif target[:1] != b"/" and b"://" not in target:
            return res.reject("request-target-form")
        msg.method = method
        msg.target = target
        msg.version = (version[5] - 48, version[7] - 48)
        # ---- field lines
        for line in lines[1:]:
            if line[0] == 32 or line[0] == 9:
                return res.reject("obs-fold")
            nv = parse_field_line(line, res)
            if nv is None:
                return res
            msg.headers.append(nv)
        for s in SINGLETON_MUST:
            if len(_header(msg, s)) > 1:
                return res.reject("duplicate-" + s.decode())
        for s in SINGLETON_MAY:
            if len(_header(msg, s)) > 1:
                res.softly("duplicate-" + s.decode())
        hosts = _header(msg, b"host")
        if msg.version == (1, 1) and len(hosts) != 1:
            return res.reject("missing-host")
        # ---- framing (RFC 9112 6.3)
        te = _header(msg, b"transfer-encoding")
        cl = _header(msg, b"content-length")
        length = None
        if te:
            if cl:
                return res.reject("te-and-cl")
            codings = _split_list(te[0])
            n_chunked = 0
            for c in codings:
                if ieq(c, b"chunked"):
                    n_chunked += 1
            if n_chunked > 1:
                return res.reject("chunked-twice")
            last = codings[-1]
            if not ieq(last, b"chunked"):
                if len(last) == 0 and len(codings) >= 2 and ieq(codings[-2], b"chunked"):
                    # "chunked," : RFC 9110 5.6.1 lets a recipient ignore empty list
                    # elements, a strict one rejects the list
                    res.softly("te-empty-last-element")
                else:
                    return res.reject("te-final-not-chunked")
            if len(codings) > 1:
                res.softly("te-other-codings")
            if msg.version != (1, 1):
                res.softly("te-in-http10")
            msg.chunked = True
        elif cl:
            v = cl[0]
            if len(v) == 0 or not all_in(v, DIGIT):
                return res.reject("content-length-syntax")
            length = dec_value(v)
        # connection options
        conn = []
        for v in _header(msg, b"connection"):
            conn += _split_list(v)
        wants_upgrade = False
        for c in conn:
            if ieq(c, b"upgrade"):
                wants_upgrade = True
            if ieq(c, b"close"):
                msg.close = True
        if msg.close is None and msg.version <= (1, 0):
            ka = False
            for c in conn:
                if ieq(c, b"keep-alive"):
                    ka = True
            if not ka:
                msg.close = True
        res.msgs.append(msg)
        pos = p
        # ---- body
        if msg.chunked:
            r = _read_chunked(data, pos, msg, res)
            if r is None:
                return res
            pos = r
        elif length is not None and length > 0:
            avail = n - pos
            if avail < length:
                msg.body = data[pos:]
                res.status = "incomplete"
                return res
            msg.body = data[pos:pos + length]
            pos += length
        msg.complete = True
        up = _header(msg, b"upgrade")
        if msg.method == b"CONNECT":
            msg.upgrade = True
            res.tail = data[pos:]
            return res
        if wants_upgrade and up and (ieq(up[0], b"websocket") or ieq(up[0], b"tcp")):
            msg.upgrade = True
            if honour_upgrade:
                res.tail = data[pos:]
                return res
        if msg.close and pos < n:
            # bytes after a request that announced "Connection: close": the server
            # may ignore or refuse them, it must not treat them as another request
            res.softly("data-after-connection-close")
            res.tail = data[pos:]
            return res


def _read_chunked(data, pos, msg, res):
    """returns new position after the complete chunked body, or None when the
    result (incomplete / reject) has been recorded in res"""
    n = len(data)
    body = b""
    while True:
        e = _find_crlf(data, pos)
        if e < 0:
            if b"\n" in data[pos:]:
                res.reject("bare-lf-in-chunk-size")
            else:
                res.status = "incomplete"
                msg.body = body
            return None
        line = data[pos:e]
        if b"\n" in line:
            res.reject("bare-lf-in-chunk-size")
            return None
        semi = line.find(b";")
        if semi >= 0:
            size_b = line[:semi]
            ext = line[semi:]
            if any_in(ext, CTL_EXCEPT_HTAB):
                res.reject("ctl-in-chunk-ext")
                return None
        else:
            size_b = line
        if len(size_b) == 0 or not all_in(size_b, HEXDIG):
            res.reject("chunk-size-syntax")
            return None
        size = hex_value(size_b)
        pos = e + 2
        if size == 0:
            break
        if n - pos < size:
            msg.body = body + data[pos:]
            res.status = "incomplete"
            return None
        body = body + data[pos:pos + size]
        msg.chunk_sizes.append(size)
        pos += size
        if n - pos < 2:
            if data[pos:] != b"\r\n"[:n - pos]:
                res.reject("no-crlf-after-chunk")
            else:
                res.status = "incomplete"
                msg.body = body
            return None
        if data[pos:pos + 2] != b"\r\n":
            res.reject("no-crlf-after-chunk")
            return None
        pos += 2
    msg.body = body
    # trailer section: field lines up to the empty line
    tlines = []
    while True:
        e = _find_crlf(data, pos)
        if e < 0:
            res.status = "incomplete"
            if b"\n" in data[pos:]:
                res.doomed = "bare-lf-in-trailer"
            return None
        line = data[pos:e]
        pos = e + 2
        if len(line) == 0:
            break
        tlines.append(line)
    for line in tlines:
        if b"\n" in line:
            res.reject("bare-lf-in-trailer")
            return None
        if line[0] == 32 or line[0] == 9:
            res.reject("obs-fold-in-trailer")
            return None
        if parse_field_line(line, res) is None:
            return None
    return pos


def dechunk(data):
    """RFC 9112 7.1 chunked-body reader for serialiser checks:
    returns (body, complete, rest, sizes) or None if `data` is not a prefix of a
    well-formed chunked body"""
    n = len(data)
    pos = 0
    body = b""
    sizes = []
    while True:
        e = data.find(b"\r\n", pos)
        if e < 0:
            return body, False, b"", sizes
        line = data[pos:e]
        semi = line.find(b";")
        size_b = line[:semi] if semi >= 0 else line
        if len(size_b) == 0 or not all_in(size_b, HEXDIG):
            return None
        size = hex_value(size_b)
        pos = e + 2
        if size == 0:
            # trailer section (field lines) up to the empty line
            while True:
                e = data.find(b"\r\n", pos)
                if e < 0:
                    return body, False, b"", sizes
                if e == pos:
                    return body, True, data[e + 2:], sizes
                pos = e + 2
        if n - pos < size + 2:
            return body + data[pos:pos + size], False, b"", sizes
        body = body + data[pos:pos + size]
        sizes.append(size)
        pos += size
        if data[pos:pos + 2] != b"\r\n":
            return None
        pos += 2


# ---------------------------------------------------------------------------
# response side: independent framer for the bytes a server wrote (RFC 9112 6.3)
class Resp:
    def __init__(self):
        self.version = None
        self.status = None
        self.reason = None
        self.headers = []
        self.body = b""
        self.complete = False
        self.framing = None  # "none" | "length" | "chunked" | "close"


def parse_responses(data, request_methods, closed):
    """split the concatenated server output into responses.
    request_methods: methods of the requests in order (HEAD responses have no body).
    closed: the transport was closed afterwards (ends a close-delimited body).
    returns (responses, error) - error is None or a string (malformed output)"""
    out = []
    pos = 0
    n = len(data)
    k = 0
    while pos < n:
        e = data.find(b"\r\n\r\n", pos)
        if e < 0:
            return out, "incomplete-header-block"
        block = data[pos:e].split(b"\r\n")
        pos = e + 4
        r = Resp()
        sl = block[0].split(b" ", 2)
        if len(sl) < 2 or not sl[0].startswith(b"HTTP/1.") or len(sl[1]) != 3 or not sl[1].isdigit():
            return out, "bad-status-line"
        r.version = sl[0]
        r.status = int(sl[1])
        r.reason = sl[2] if len(sl) > 2 else b""
        for line in block[1:]:
            i = line.find(b":")
            if i <= 0:
                return out, "bad-field-line"
            r.headers.append((line[:i].strip().lower(), line[i + 1:].strip()))
        if 100 <= r.status < 200:
            r.complete = True
            r.framing = "none"
            out.append(r)
            continue  # interim response: does not consume a request
        method = request_methods[k] if k < len(request_methods) else None
        k += 1
        te = [v for (h, v) in r.headers if h == b"transfer-encoding"]
        cl = [v for (h, v) in r.headers if h == b"content-length"]
        if method == "HEAD" or r.status in (204, 304):
            r.framing = "none"
            r.complete = True
        elif te and te[-1].lower().split(b",")[-1].strip() == b"chunked":
            r.framing = "chunked"
            d = dechunk(data[pos:])
            if d is None:
                out.append(r)
                return out, "bad-chunked-body"
            body, complete, rest, _sizes = d
            r.body = body
            r.complete = complete
            pos = n - len(rest) if complete else n
        elif cl:
            if len(cl) > 1 or not cl[0].isdigit():
                return out, "bad-content-length"
            ln = int(cl[0])
            r.framing = "length"
            r.body = data[pos:pos + ln]
            r.complete = len(r.body) == ln
            pos += ln
        else:
            r.framing = "close"
            r.body = data[pos:]
            r.complete = bool(closed)
            pos = n
        out.append(r)
        if not r.complete:
            break
    return out, None

"""Value-level helpers for the reference oracles: work on native bytes/str and on
symx proxies alike (one formula per question instead of one fork per element)."""
from symx.core import SBool, SInt, SSeq, conj, disj, in_ranges, mkbool, neg, ranges_of

TCHAR = frozenset(b"!#$%&'*+-.^_`|~0123456789abcdefghijklmnopqrstuvwxyzABCDEFGHIJKLMNOPQRSTUVWXYZ")
DIGIT = frozenset(b"0123456789")
HEXDIG = frozenset(b"0123456789abcdefABCDEF")
# field-vchar / obs-text / SP / HTAB
FIELD_VALUE_OK = frozenset([9, 32]) | frozenset(range(0x21, 0x7F)) | frozenset(range(0x80, 0x100))
CTL_EXCEPT_HTAB = (frozenset(range(0, 32)) | {127}) - {9}

_rng_cache = {}


def _elems(seq):
    if isinstance(seq, SSeq):
        return seq.b
    if isinstance(seq, str):
        return tuple(ord(c) for c in seq)
    return tuple(seq)


def all_in(seq, allowed):
    """every element of seq is in `allowed` (a frozenset of ints) -> bool | SBool"""
    r = _rng_cache.get(id(allowed))
    if r is None:
        r = ranges_of(allowed)
        _rng_cache[id(allowed)] = r
    return mkbool(conj([in_ranges(x, r) for x in _elems(seq)]))


def any_in(seq, s):
    r = _rng_cache.get(id(s))
    if r is None:
        r = ranges_of(s)
        _rng_cache[id(s)] = r
    return mkbool(disj([in_ranges(x, r) for x in _elems(seq)]))


def ieq(seq, lit):
    """ASCII case-insensitive equality of a bytes/str value with a lower-case literal"""
    e = _elems(seq)
    l = _elems(lit)
    if len(e) != len(l):
        return False
    parts = []
    for x, c in zip(e, l):
        if 97 <= c <= 122:
            parts.append(disj([x == c, x == c - 32]))
        else:
            parts.append(x == c)
    return mkbool(conj(parts))


def dec_value(seq):
    """value of 1*DIGIT (caller has checked the syntax)"""
    v = 0
    for x in _elems(seq):
        v = v * 10 + (x - 48)
    return v if isinstance(v, int) else SInt(v)


def hex_value(seq):
    from symx.core import _hexval_formula

    v = 0
    for x in _elems(seq):
        v = v * 16 + _hexval_formula(x)
    return v if isinstance(v, int) else SInt(v)


def lower_ascii(seq):
    """bytes -> bytes with A-Z lowered (exact, ASCII only)"""
    if isinstance(seq, SSeq):
        return seq.lower()
    return bytes(seq).lower()

"""binary64 proxies: run the real timer arithmetic of aiohttp.helpers on z3 floating
point terms (floats are encoded as IEEE-754 doubles, never as reals)."""
from __future__ import annotations

import z3

from .core import Ctx, SBool, mkbool

F64 = z3.Float64()
RNE = z3.RNE()
RTP = z3.RoundTowardPositive()


def fv(x):
    if isinstance(x, SFloat):
        return x.e
    if isinstance(x, (int, float)):
        return z3.FPVal(float(x), F64)
    raise TypeError(type(x))


class SFloat:
    __slots__ = ("e",)

    def __init__(self, e):
        self.e = e

    def __add__(self, o):
        return SFloat(z3.fpAdd(RNE, self.e, fv(o)))

    __radd__ = __add__

    def __sub__(self, o):
        return SFloat(z3.fpSub(RNE, self.e, fv(o)))

    def __rsub__(self, o):
        return SFloat(z3.fpSub(RNE, fv(o), self.e))

    def __gt__(self, o):
        return mkbool(z3.fpGT(self.e, fv(o)))

    def __ge__(self, o):
        return mkbool(z3.fpGEQ(self.e, fv(o)))

    def __lt__(self, o):
        return mkbool(z3.fpLT(self.e, fv(o)))

    def __le__(self, o):
        return mkbool(z3.fpLEQ(self.e, fv(o)))

    def __eq__(self, o):
        return mkbool(z3.fpEQ(self.e, fv(o)))

    def __ne__(self, o):
        return mkbool(z3.Not(z3.fpEQ(self.e, fv(o))))

    def __hash__(self):
        return id(self)

    def __ceil__(self):
        # math.ceil(float) is the least integer >= x; as a double-valued term
        return SFloat(z3.fpRoundToIntegral(RTP, self.e))

    def __bool__(self):
        return Ctx.cur.fork(z3.Not(z3.fpIsZero(self.e)))

    def __repr__(self):
        return "<SFloat>"


def fresh(ctx, name, lo, hi, lo_open=False):
    """finite double in [lo, hi] (lo excluded if lo_open)"""
    v = z3.FP(name, F64)
    ctx.vars[name] = v
    ctx.solver.add(z3.Not(z3.fpIsNaN(v)), z3.Not(z3.fpIsInf(v)))
    ctx.solver.add(z3.fpGT(v, fv(lo)) if lo_open else z3.fpGEQ(v, fv(lo)), z3.fpLEQ(v, fv(hi)))
    ctx.model = None
    return SFloat(v)

"""symx core: path context, forking, symbolic value proxies.

Dynamic symbolic execution by re-execution: a path is one native run of the
harness under a decision prefix; `Ctx.fork` is the only place where the solver
is consulted.  Values are plain Python proxies (SBool/SInt/SBytes/SStr/...),
sequences have *concrete length and symbolic elements*.
"""
from __future__ import annotations

import time
import z3

__all__ = [
    "Abort", "StepBudget", "Ctx", "ConcreteCtx", "cur", "SBool", "SInt", "SSeq",
    "SBytes", "SByteArray", "SStr", "SymSet", "E", "mkbool", "conj", "disj",
    "neg", "is_sym", "SYM_TYPES", "UNIVERSE", "REPS", "in_ranges", "ranges_of",
    "charfn_int", "charfn_bool", "ite", "sym_eq", "seq_eq",
]


class Abort(BaseException):
    """Current path is infeasible / must be abandoned (not an error)."""


class StepBudget(BaseException):
    """Per-path step budget exhausted: non-termination candidate."""


class Incomplete(BaseException):
    """Solver said unknown on a query that is needed to continue."""


# non-ASCII representatives of the str element domain (see DESIGN §2.2)
REPS = (0x0130, 0x017F, 0x0660, 0x212A, 0x2028, 0xFF10, 0xFFFF, 0x1F600)
UNIVERSE = tuple(sorted(set(range(0, 0x100)) | set(range(0xDC80, 0xDD00)) | set(REPS)))
BYTE_UNIVERSE = tuple(range(256))


def cur() -> "Ctx":
    return Ctx.cur


class Ctx:
    """One path."""

    cur: "Ctx" = None  # type: ignore[assignment]
    symbolic = True

    def __init__(self, prefix=(), step_budget=2_000_000, qtimeout_ms=30_000):
        self.solver = z3.Solver()
        self.solver.set("timeout", qtimeout_ms)
        self.prefix = list(prefix)
        self.trail = []  # (taken, other_feasible)
        self.pos = 0
        self.n_checks = 0
        self.solver_s = 0.0
        self.vars = {}  # name -> (kind, z3 var / list)
        self.model = None
        self.realised = []  # descriptions of realisations on this path
        self.notes = []
        self.unknown = 0
        self.steps = 0
        self.step_budget = step_budget
        self.entered = set()
        self._n = 0
        _XT.clear()

    # ---------------------------------------------------------------- inputs
    def _decl(self, name, lo, hi, kind="int"):
        v = z3.Int(name)
        self.vars[name] = v
        self.solver.add(v >= lo, v <= hi)
        self.model = None
        return v

    def int(self, name, lo, hi, bits=None):
        return SInt(self._decl(name, lo, hi), bits)

    def bool(self, name):
        v = z3.Bool(name)
        self.vars[name] = v
        return SBool(v)

    def choice(self, name, n):
        """symbolic index 0..n-1, returned concretely (forks)."""
        if n <= 1:
            return 0
        v = self._decl(name, 0, n - 1)
        for i in range(n - 1):
            if self.fork(v == i):
                return i
        return n - 1

    def pick(self, name, options):
        return options[self.choice(name, len(options))]

    def flag(self, name):
        """symbolic boolean returned concretely (forks)."""
        return self.choice(name, 2) == 1

    def bytes(self, name, n, domain=None):
        """n symbolic bytes. domain: None=0..255, 'bytewise' = 0..0x7f U 0xf8..0xff,
        or an iterable of allowed values."""
        out = []
        for i in range(n):
            v = self._decl(f"{name}[{i}]", 0, 255)
            if domain == "bytewise":
                self.solver.add(z3.Or(v < 128, v >= 248))
            elif domain is not None:
                self.solver.add(in_ranges(v, ranges_of(domain)))
            out.append(v)
        return SBytes(out)

    def str(self, name, n, domain=None):
        out = []
        dom = UNIVERSE if domain is None else tuple(sorted(set(domain)))
        rng = ranges_of(dom)
        for i in range(n):
            v = self._decl(f"{name}[{i}]", 0, 0x10FFFF)
            self.solver.add(in_ranges(v, rng))
            out.append(v)
        return SStr(out)

    def float(self, name, lo, hi, lo_open=False):
        from . import fp

        return fp.fresh(self, name, lo, hi, lo_open)

    def assume(self, cond):
        if isinstance(cond, SBool):
            cond = cond.e
        if cond is True:
            return
        if cond is False:
            raise Abort()
        self.solver.add(cond)
        self.model = None
        # feasibility is checked lazily by the next fork / model request
        if self.pos >= len(self.prefix):
            self._model()

    def note(self, s):
        self.notes.append(s)

    # ---------------------------------------------------------------- solver
    def _check(self):
        t = time.perf_counter()
        self.n_checks += 1
        r = self.solver.check()
        self.solver_s += time.perf_counter() - t
        return r

    def _model(self):
        if self.model is None:
            r = self._check()
            if r == z3.unsat:
                raise Abort()
            if r != z3.sat:
                self.unknown += 1
                raise Incomplete()
            self.model = self.solver.model()
        return self.model

    def step(self, n=1):
        self.steps += n
        if self.steps > self.step_budget:
            raise StepBudget()

    def fork(self, expr, payload=None) -> bool:
        if expr is True or expr is False:
            return expr
        if isinstance(expr, SBool):
            expr = expr.e
        if not z3.is_expr(expr):
            return bool(expr)
        if z3.is_true(expr):
            return True
        if z3.is_false(expr):
            return False
        self.step()
        if self.pos < len(self.prefix):
            taken = self.prefix[self.pos][0]
            self.pos += 1
            self.solver.add(expr if taken else z3.Not(expr))
            self.model = None
            self.trail.append((taken, False, payload))
            return taken
        m = self._model()
        taken = z3.is_true(m.eval(expr, model_completion=True))
        other = z3.Not(expr) if taken else expr
        self.solver.push()
        self.solver.add(other)
        r = self._check()
        self.solver.pop()
        if r == z3.unknown:
            self.unknown += 1
        other_ok = r == z3.sat
        self.solver.add(expr if taken else z3.Not(expr))
        # current model still satisfies the added constraint
        self.trail.append((taken, other_ok, payload))
        self.pos += 1
        return taken

    def concretize(self, e, why=""):
        """enumerate the value of an Int expr by forking (exhaustive)."""
        if isinstance(e, int):
            return e
        e = z3.simplify(e)
        if z3.is_int_value(e):
            return e.as_long()
        while True:
            if self.pos < len(self.prefix):
                v = self.prefix[self.pos][1]
            else:
                v = self._model().eval(e, model_completion=True).as_long()
            if self.fork(e == v, v):
                return v

    def realise(self, e, why):
        """concretise to the current model value WITHOUT exploring alternatives.
        Flags the path: exhaustiveness is lost for this harness."""
        if isinstance(e, int):
            return e
        if self.pos < len(self.prefix):
            v = self.prefix[self.pos][1]
        else:
            v = self._model().eval(e, model_completion=True).as_long()
        self.solver.add(e == v)
        self.trail.append((True, False, v))
        self.pos += 1
        self.realised.append(why)
        return v

    def fresh(self, base="t"):
        self._n += 1
        return f"_{base}{self._n}"

    # model extraction
    def witness(self, model):
        out = {}
        for name, v in self.vars.items():
            x = model.eval(v, model_completion=True)
            if z3.is_int_value(x):
                out[name] = x.as_long()
            elif z3.is_fp(x):
                try:
                    out[name] = float(eval(str(z3.simplify(z3.fpToReal(x))).replace("?", ""))) if False else _fp_to_py(x)
                except Exception:  # noqa: BLE001
                    out[name] = str(x)
            else:
                out[name] = bool(z3.is_true(x))
        return out


class ConcreteCtx:
    """Replay context: same input API, concrete values from a witness dict."""

    symbolic = False

    def __init__(self, witness):
        self.w = witness
        self.notes = []
        self.realised = []
        self.entered = set()
        self.steps = 0
        self.step_budget = 10_000_000

    def int(self, name, lo, hi, bits=None):
        return int(self.w.get(name, lo))

    def bool(self, name):
        return bool(self.w.get(name, False))

    def choice(self, name, n):
        return int(self.w.get(name, 0)) if n > 1 else 0

    def pick(self, name, options):
        return options[self.choice(name, len(options))]

    def flag(self, name):
        return self.choice(name, 2) == 1

    def bytes(self, name, n, domain=None):
        return bytes(int(self.w.get(f"{name}[{i}]", 0)) for i in range(n))

    def str(self, name, n, domain=None):
        return "".join(chr(int(self.w.get(f"{name}[{i}]", 0))) for i in range(n))

    def float(self, name, lo, hi, lo_open=False):
        return float(self.w.get(name, lo))

    def assume(self, cond):
        if not cond:
            raise Abort()

    def fork(self, e):
        return bool(e)

    def note(self, s):
        self.notes.append(s)

    def step(self, n=1):
        self.steps += n
        if self.steps > self.step_budget:
            raise StepBudget()

    def concretize(self, e, why=""):
        return e


# --------------------------------------------------------------------- formulas
def E(x):
    if isinstance(x, (SInt, SBool)):
        return x.e
    if x is True or x is False:
        return x
    return x


def mkbool(e):
    if e is True or e is False:
        return e
    if isinstance(e, SBool):
        return e
    if z3.is_true(e):
        return True
    if z3.is_false(e):
        return False
    return SBool(e)


def neg(x):
    if isinstance(x, SBool):
        x = x.e
    if x is True:
        return False
    if x is False:
        return True
    return z3.Not(x)


def conj(xs):
    out = []
    for x in xs:
        if isinstance(x, SBool):
            x = x.e
        if x is True:
            continue
        if x is False:
            return False
        out.append(x)
    if not out:
        return True
    return z3.And(out) if len(out) > 1 else out[0]


def disj(xs):
    out = []
    for x in xs:
        if isinstance(x, SBool):
            x = x.e
        if x is False:
            continue
        if x is True:
            return True
        out.append(x)
    if not out:
        return False
    return z3.Or(out) if len(out) > 1 else out[0]


def ite(c, a, b):
    if isinstance(c, SBool):
        c = c.e
    if c is True:
        return a
    if c is False:
        return b
    if isinstance(a, int) and isinstance(b, int) and a == b:
        return a
    return z3.If(c, a, b)


def elem_eq(a, b):
    if isinstance(a, int) and isinstance(b, int):
        return a == b
    return a == b


def ranges_of(values):
    vs = sorted(set(values))
    out = []
    for v in vs:
        if out and out[-1][1] == v - 1:
            out[-1][1] = v
        else:
            out.append([v, v])
    return [tuple(r) for r in out]


def in_ranges(x, ranges):
    if isinstance(x, SInt):
        x = x.e
    if isinstance(x, int):
        return any(lo <= x <= hi for lo, hi in ranges)
    alts = []
    for lo, hi in ranges:
        alts.append(x == lo if lo == hi else z3.And(x >= lo, x <= hi))
    return disj(alts)


_charfn_cache = {}


def _runs(universe, f):
    """maximal runs of consecutive universe members with identical f(c) - c
    (int-valued f) or identical f(c) (bool-valued f)."""
    key = (id(universe), f)
    if key in _charfn_cache:
        return _charfn_cache[key]
    runs = []
    for c in universe:
        v = f(c)
        d = v if isinstance(v, bool) else v - c
        if runs and runs[-1][1] == c - 1 and runs[-1][2] == d and type(runs[-1][2]) is type(d):
            runs[-1][1] = c
        else:
            runs.append([c, c, d])
    _charfn_cache[key] = runs
    return runs


def charfn_int(x, f, universe=UNIVERSE):
    """exact int->int per-character function over the universe (f evaluated natively)."""
    if isinstance(x, int):
        return f(x)
    runs = _runs(universe, f)
    # default delta 0
    res = x
    for lo, hi, d in runs:
        if d != 0:
            c = (x == lo) if lo == hi else z3.And(x >= lo, x <= hi)
            res = z3.If(c, x + d, res)
    return res


def charfn_bool(x, f, universe=UNIVERSE):
    if isinstance(x, int):
        return bool(f(x))
    runs = _runs(universe, f)
    return disj(
        [(x == lo) if lo == hi else z3.And(x >= lo, x <= hi) for lo, hi, v in runs if v]
    )


# ------------------------------------------------------------------- proxies
class SBool:
    __slots__ = ("e",)

    def __init__(self, e):
        self.e = e

    def __bool__(self):
        return Ctx.cur.fork(self.e)

    def __and__(self, o):
        return mkbool(conj([self.e, E(o)]))

    __rand__ = __and__

    def __or__(self, o):
        return mkbool(disj([self.e, E(o)]))

    __ror__ = __or__

    def __invert__(self):
        return mkbool(z3.Not(self.e))

    def __eq__(self, o):
        if isinstance(o, (bool, SBool)):
            return mkbool(self.e == E(o))
        return bool(self) == o

    def __ne__(self, o):
        r = self.__eq__(o)
        return mkbool(neg(r))

    def __hash__(self):
        return hash(bool(self))

    def __index__(self):
        return int(bool(self))

    __int__ = __index__

    def __repr__(self):
        return "<SBool>"


def _pow2(k):
    return 1 << k


def _bitand_const(e, m):
    """e & m for a non-negative Int expr e and non-negative int constant m."""
    if m == 0:
        return 0
    # contiguous runs of set bits
    res = None
    i = 0
    while (1 << i) <= m:
        if m >> i & 1:
            j = i
            while m >> j & 1:
                j += 1
            # bits i..j-1
            part = e if i == 0 else e / _pow2(i)
            part = part % _pow2(j - i)
            if i:
                part = part * _pow2(i)
            res = part if res is None else res + part
            i = j
        else:
            i += 1
    return res


class SInt:
    __slots__ = ("e", "bits")

    def __init__(self, e, bits=None):
        self.e = e
        self.bits = bits  # known: 0 <= value < 2**bits, or None

    # --- conversions
    def __index__(self):
        return Ctx.cur.concretize(self.e, "index")

    __int__ = __index__

    def __bool__(self):
        return Ctx.cur.fork(self.e != 0)

    def __hash__(self):
        return hash(self.__index__())

    def __repr__(self):
        return "<SInt>"

    __str__ = __repr__

    def __format__(self, spec):
        return "<SInt>"

    # --- comparisons
    def __eq__(self, o):
        if isinstance(o, (int, SInt)) and not isinstance(o, bool) or isinstance(o, bool):
            return mkbool(self.e == E(o) if not isinstance(o, bool) else self.e == int(o))
        if isinstance(o, float):
            return mkbool(z3.ToReal(self.e) == z3.RealVal(o))
        return False

    def __ne__(self, o):
        return mkbool(neg(self.__eq__(o)))

    def _cmp(self, o, op):
        if isinstance(o, float):
            return mkbool(op(z3.ToReal(self.e), z3.RealVal(o)))
        if not isinstance(o, (int, SInt)):
            return NotImplemented
        return mkbool(op(self.e, E(o)))

    def __lt__(self, o):
        return self._cmp(o, lambda a, b: a < b)

    def __le__(self, o):
        return self._cmp(o, lambda a, b: a <= b)

    def __gt__(self, o):
        return self._cmp(o, lambda a, b: a > b)

    def __ge__(self, o):
        return self._cmp(o, lambda a, b: a >= b)

    # --- arithmetic
    def _ok(self, o):
        return isinstance(o, (int, SInt))

    def __add__(self, o):
        if not self._ok(o):
            return NotImplemented
        return SInt(self.e + E(o))

    __radd__ = __add__

    def __sub__(self, o):
        if not self._ok(o):
            return NotImplemented
        return SInt(self.e - E(o))

    def __rsub__(self, o):
        if not self._ok(o):
            return NotImplemented
        return SInt(E(o) - self.e)

    def __mul__(self, o):
        if not self._ok(o):
            return NotImplemented
        return SInt(self.e * E(o))

    __rmul__ = __mul__

    def __neg__(self):
        return SInt(-self.e)

    def __pos__(self):
        return self

    def __abs__(self):
        return SInt(z3.If(self.e >= 0, self.e, -self.e))

    def __floordiv__(self, o):
        if not self._ok(o):
            return NotImplemented
        if isinstance(o, int) and o > 0:
            return SInt(self.e / o)  # z3 Int div: floor for positive divisor
        d = E(o)
        if bool(mkbool(d == 0)):
            raise ZeroDivisionError("integer division or modulo by zero")
        # python floor division for any sign
        q = self.e / d
        return SInt(z3.If(d > 0, q, z3.If(self.e % d == 0, q, (-self.e) / (-d))))

    def __rfloordiv__(self, o):
        return SInt(z3.IntVal(o)).__floordiv__(self)

    def __mod__(self, o):
        if not self._ok(o):
            return NotImplemented
        if isinstance(o, int) and o > 0:
            return SInt(self.e % o, o.bit_length())
        d = E(o)
        if bool(mkbool(d == 0)):
            raise ZeroDivisionError("integer division or modulo by zero")
        r = self.e % d  # z3: 0 <= r < |d|
        return SInt(z3.If(d > 0, r, z3.If(r == 0, r, r + d)))

    def __rmod__(self, o):
        if isinstance(o, int):
            return SInt(z3.IntVal(o)).__mod__(self)
        return NotImplemented

    def __divmod__(self, o):
        return (self // o, self % o)

    def __truediv__(self, o):
        # floats are outside the integer encoding: realise
        v = Ctx.cur.realise(self.e, "SInt true division")
        return v / (int(o) if isinstance(o, SInt) else o)

    def __pow__(self, o):
        if isinstance(o, int) and 0 <= o <= 4:
            r = z3.IntVal(1)
            for _ in range(o):
                r = r * self.e
            return SInt(r)
        return int(self) ** int(o)

    def __lshift__(self, k):
        k = int(k)
        return SInt(self.e * _pow2(k), None if self.bits is None else self.bits + k)

    def __rshift__(self, k):
        k = int(k)
        return SInt(self.e / _pow2(k), None if self.bits is None else max(self.bits - k, 0))

    def __rlshift__(self, o):
        return o << int(self)

    def __rrshift__(self, o):
        return o >> int(self)

    def _width(self, o):
        wa = self.bits
        wb = o.bits if isinstance(o, SInt) else (o.bit_length() if o >= 0 else None)
        if wa is None or wb is None:
            return None
        return max(wa, wb, 1)

    def _bitop(self, o, op):
        """bitwise op on non-negative operands of known small width, kept inside
        linear integer arithmetic (per-bit if-then-else); wide/unknown -> BV."""
        w = self._width(o)
        if w is not None and w <= 16:
            a, b = self.e, E(o)
            terms = []
            for i in range(w):
                ba = (a / _pow2(i)) % 2 if i else a % 2
                if isinstance(b, int):
                    bb = b >> i & 1
                    if op == "and":
                        t = ba if bb else 0
                    elif op == "or":
                        t = 1 if bb else ba
                    else:
                        t = (1 - ba) if bb else ba
                    if isinstance(t, int):
                        if t:
                            terms.append(_pow2(i))
                    else:
                        terms.append(t * _pow2(i))
                else:
                    bbx = (b / _pow2(i)) % 2 if i else b % 2
                    if op == "and":
                        c = z3.And(ba == 1, bbx == 1)
                    elif op == "or":
                        c = z3.Or(ba == 1, bbx == 1)
                    else:
                        c = ba != bbx
                    terms.append(z3.If(c, _pow2(i), 0))
            r = terms[0] if terms else z3.IntVal(0)
            for t in terms[1:]:
                r = r + t
            if isinstance(r, int):
                r = z3.IntVal(r)
            return SInt(r, w)
        w = w or 64
        f = {"and": lambda x, y: x & y, "or": lambda x, y: x | y, "xor": lambda x, y: x ^ y}[op]
        a = z3.Int2BV(self.e, w)
        b = z3.Int2BV(E(o), w) if isinstance(o, SInt) else z3.BitVecVal(o, w)
        return SInt(z3.BV2Int(f(a, b)), w)

    def __and__(self, o):
        if isinstance(o, int) and o >= 0:
            r = _bitand_const(self.e, o)
            return SInt(r, o.bit_length()) if not isinstance(r, int) else r
        if not self._ok(o):
            return NotImplemented
        return self._bitop(o, "and")

    __rand__ = __and__

    def __or__(self, o):
        if not self._ok(o):
            return NotImplemented
        if isinstance(o, int) and o == 0:
            return self
        return self._bitop(o, "or")

    __ror__ = __or__

    def __xor__(self, o):
        if not self._ok(o):
            return NotImplemented
        if isinstance(o, int) and o == 0:
            return self
        # XOR is kept in a normal form (constant + set of distinct symbolic terms) so
        # that (x ^ m) ^ m cancels syntactically instead of burdening the solver
        ca, ta = _xor_terms(self.e)
        if isinstance(o, int):
            cb, tb = o, {}
        else:
            cb, tb = _xor_terms(o.e)
        c = ca ^ cb
        t = dict(ta)
        for k, v in tb.items():
            if k in t:
                del t[k]
            else:
                t[k] = v
        w = self._width(o)
        if not t:
            return c
        items = sorted(t.items())
        acc = SInt(items[0][1], w)
        for _k, v in items[1:]:
            acc = acc._bitop(SInt(v, w), "xor")
        if c:
            acc = acc._bitop(c, "xor")
        if len(t) > 1 or c:
            _XT[acc.e.get_id()] = (c, t, acc.e)
        return acc

    __rxor__ = __xor__

    def __invert__(self):
        return SInt(-self.e - 1)

    def to_bytes(self, length=1, byteorder="big", *, signed=False):
        length = int(length)
        if bool(mkbool(z3.Or(self.e < 0, self.e >= _pow2(8 * length)))):
            raise OverflowError("int too big to convert")
        elems = [(self.e / _pow2(8 * i)) % 256 for i in range(length)]
        if byteorder == "big":
            elems.reverse()
        return SBytes(elems)

    def bit_length(self):
        return int(self).bit_length()

    @property
    def real(self):
        return self

    @property
    def imag(self):
        return 0

    def conjugate(self):
        return self


_XT = {}


def _xor_terms(e):
    r = _XT.get(e.get_id())
    if r is not None:
        return r[0], r[1]
    return 0, {e.get_id(): e}


def _fp_to_py(x):
    """z3 FPNumRef -> python float (exact)"""
    import struct as _st

    if x.isNaN():
        return float("nan")
    if x.isInf():
        return float("-inf") if x.isNegative() else float("inf")
    bv = z3.simplify(z3.fpToIEEEBV(x))
    return _st.unpack(">d", bv.as_long().to_bytes(8, "big"))[0]


def is_sym(x):
    return type(x) in SYM_TYPES


def sym_eq(a, b):
    """formula/bool for a == b over ints/SInt/seqs/tuples/None (structural)."""
    if isinstance(a, SSeq) or isinstance(b, SSeq):
        if isinstance(a, SSeq):
            return a.eq_formula(b)
        return b.eq_formula(a)
    if isinstance(a, (SInt, SBool)) or isinstance(b, (SInt, SBool)):
        if isinstance(a, SBool) or isinstance(b, SBool):
            ea = a.e if isinstance(a, SBool) else bool(a)
            eb = b.e if isinstance(b, SBool) else bool(b)
            return ea == eb if (z3.is_expr(ea) or z3.is_expr(eb)) else ea == eb
        r = E(a) == E(b)
        return r
    if isinstance(a, (tuple, list)) and isinstance(b, (tuple, list)):
        if len(a) != len(b):
            return False
        return conj([sym_eq(x, y) for x, y in zip(a, b)])
    r = a == b
    if isinstance(r, SBool):
        return r.e
    return bool(r)


def seq_eq(a, b):
    return sym_eq(a, b)


class SSeq:
    """Concrete length; elements are python ints or z3 Int expressions."""

    __slots__ = ("b",)
    native = bytes
    elem_bits = None
    universe = BYTE_UNIVERSE

    def __init__(self, elems=()):
        if isinstance(elems, SSeq):
            elems = elems.b
        elif isinstance(elems, (bytes, bytearray, memoryview)):
            elems = tuple(bytes(elems))
        elif isinstance(elems, str):
            elems = tuple(ord(c) for c in elems)
        else:
            elems = tuple(_simp(E(x)) for x in elems)
        self.b = elems

    # ---- helpers
    @classmethod
    def mk(cls, elems):
        """normalise: fully concrete immutable results become native objects"""
        elems = tuple(elems)
        for x in elems:
            if not isinstance(x, int):
                return cls(elems)
        return cls._native(elems)

    @classmethod
    def _native(cls, elems):
        return bytes(elems)

    def _coerce(self, o):
        if isinstance(o, SSeq):
            return o
        if isinstance(o, (bytes, bytearray, memoryview, str)):
            return type(self)(o)
        if isinstance(o, (int, SInt)) and not isinstance(self, SStr):
            return type(self)((E(o),))
        raise TypeError(f"cannot coerce {type(o).__name__}")

    def is_concrete(self):
        return all(isinstance(x, int) for x in self.b)

    def concrete(self):
        return self._native(self.b)

    def _elem(self, x):
        return x if isinstance(x, int) else SInt(x, self.elem_bits)

    def realise(self, why="seq"):
        if self.is_concrete():
            return self.concrete()
        c = Ctx.cur
        return self._native(tuple(c.realise(x, why) for x in self.b))

    def enumerate_concrete(self):
        """exhaustive concretisation by forking on every symbolic element"""
        c = Ctx.cur
        return self._native(tuple(c.concretize(x) for x in self.b))

    # ---- protocol
    def __len__(self):
        return len(self.b)

    def __bool__(self):
        return len(self.b) > 0

    def __iter__(self):
        return iter([self._elem(x) for x in self.b])

    def __reversed__(self):
        return iter([self._elem(x) for x in reversed(self.b)])

    def __getitem__(self, i):
        if isinstance(i, slice):
            i = slice(
                None if i.start is None else int(i.start),
                None if i.stop is None else int(i.stop),
                None if i.step is None else int(i.step),
            )
            return self.mk(self.b[i])
        if isinstance(i, SInt):
            i = int(i)
        return self._elem(self.b[i])

    def __add__(self, o):
        try:
            o = self._coerce(o)
        except TypeError:
            return NotImplemented
        return type(self)(self.b + o.b)

    def __radd__(self, o):
        try:
            oo = self._coerce(o)
        except TypeError:
            return NotImplemented
        cls = SByteArray if isinstance(o, bytearray) else type(self)
        return cls(oo.b + self.b)

    def __mul__(self, k):
        return type(self)(self.b * int(k))

    __rmul__ = __mul__

    def eq_formula(self, o):
        if not isinstance(o, (SSeq, bytes, bytearray, str)):
            return False
        if isinstance(o, str) != isinstance(self, SStr) and not isinstance(o, SSeq):
            return False
        if isinstance(o, SSeq) and isinstance(o, SStr) != isinstance(self, SStr):
            return False
        ob = o.b if isinstance(o, SSeq) else (tuple(ord(c) for c in o) if isinstance(o, str) else tuple(bytes(o)))
        if len(ob) != len(self.b):
            return False
        return conj([elem_eq(a, b) for a, b in zip(self.b, ob)])

    def __eq__(self, o):
        if not isinstance(o, (SSeq, bytes, bytearray, str)):
            return False
        return mkbool(self.eq_formula(o))

    def __ne__(self, o):
        return mkbool(neg(self.eq_formula(o))) if isinstance(o, (SSeq, bytes, bytearray, str)) else True

    def _lex(self, o, strict_lt, or_eq):
        o = self._coerce(o)
        a, b = self.b, o.b
        # lexicographic a < b
        res = (len(a) < len(b)) if strict_lt else (len(a) > len(b))
        if or_eq and len(a) == len(b):
            res = True
        for x, y in reversed(list(zip(a, b))):
            lt = (x < y) if strict_lt else (x > y)
            res = disj([lt, conj([elem_eq(x, y), res])])
        return mkbool(res)

    def __lt__(self, o):
        return self._lex(o, True, False)

    def __le__(self, o):
        return self._lex(o, True, True)

    def __gt__(self, o):
        return self._lex(o, False, False)

    def __ge__(self, o):
        return self._lex(o, False, True)

    def __hash__(self):
        # hashing needs a concrete value: enumerate (exhaustive, may be wide)
        return hash(self.enumerate_concrete())

    def __repr__(self):
        return f"<{type(self).__name__} len={len(self.b)}>"

    __str__ = __repr__

    def __format__(self, spec):
        return repr(self)

    # ---- searching
    def _match_at(self, sub, i):
        return conj([elem_eq(self.b[i + j], sub.b[j]) for j in range(len(sub.b))])

    def _bounds(self, start, end):
        n = len(self.b)
        s, e, _ = slice(
            None if start is None else int(start), None if end is None else int(end)
        ).indices(n)
        return s, e

    def find(self, sub, start=None, end=None):
        sub = self._coerce(sub)
        s, e = self._bounds(start, end)
        m = len(sub.b)
        ctx = Ctx.cur
        for i in range(s, e - m + 1):
            if ctx.fork(self._match_at(sub, i)):
                return i
        return -1

    def rfind(self, sub, start=None, end=None):
        sub = self._coerce(sub)
        s, e = self._bounds(start, end)
        m = len(sub.b)
        ctx = Ctx.cur
        for i in range(e - m, s - 1, -1):
            if ctx.fork(self._match_at(sub, i)):
                return i
        return -1

    def index(self, sub, start=None, end=None):
        r = self.find(sub, start, end)
        if r < 0:
            raise ValueError("subsection not found")
        return r

    def rindex(self, sub, start=None, end=None):
        r = self.rfind(sub, start, end)
        if r < 0:
            raise ValueError("subsection not found")
        return r

    def count(self, sub, start=None, end=None):
        sub = self._coerce(sub)
        s, e = self._bounds(start, end)
        m = len(sub.b)
        ctx = Ctx.cur
        n = 0
        i = s
        if m == 0:
            return e - s + 1
        while i <= e - m:
            if ctx.fork(self._match_at(sub, i)):
                n += 1
                i += m
            else:
                i += 1
        return n

    def __contains__(self, sub):
        if isinstance(sub, (int, SInt)) and not isinstance(self, SStr):
            return Ctx.cur.fork(disj([elem_eq(x, E(sub)) for x in self.b]))
        sub = self._coerce(sub)
        n, m = len(self.b), len(sub.b)
        return Ctx.cur.fork(disj([self._match_at(sub, i) for i in range(0, n - m + 1)]))

    def startswith(self, p, start=None, end=None):
        if isinstance(p, tuple):
            return any(self.startswith(x, start, end) for x in p)
        p = self._coerce(p)
        s, e = self._bounds(start, end)
        if len(p.b) > e - s:
            return False
        return Ctx.cur.fork(self._match_at(p, s))

    def endswith(self, p, start=None, end=None):
        if isinstance(p, tuple):
            return any(self.endswith(x, start, end) for x in p)
        p = self._coerce(p)
        s, e = self._bounds(start, end)
        if len(p.b) > e - s:
            return False
        return Ctx.cur.fork(self._match_at(p, e - len(p.b)))

    def removeprefix(self, p):
        p = self._coerce(p)
        if self.startswith(p):
            return self[len(p.b):]
        return self

    def removesuffix(self, p):
        p = self._coerce(p)
        if len(p.b) and self.endswith(p):
            return self[: len(self.b) - len(p.b)]
        return self

    # ---- splitting
    def _ws(self, x):
        return charfn_bool(x, self._is_space_native, self.universe)

    def split(self, sep=None, maxsplit=-1):
        maxsplit = int(maxsplit)
        ctx = Ctx.cur
        out = []
        if sep is None:
            # whitespace runs
            i, n = 0, len(self.b)
            while True:
                while i < n and ctx.fork(self._ws(self.b[i])):
                    i += 1
                if i >= n:
                    break
                if maxsplit >= 0 and len(out) >= maxsplit:
                    j = n
                    # rest, with trailing whitespace stripped
                    while j > i and ctx.fork(self._ws(self.b[j - 1])):
                        j -= 1
                    out.append(self.mk(self.b[i:j]))
                    break
                j = i
                while j < n and not ctx.fork(self._ws(self.b[j])):
                    j += 1
                out.append(self.mk(self.b[i:j]))
                i = j
            return out
        sep = self._coerce(sep)
        m = len(sep.b)
        if m == 0:
            raise ValueError("empty separator")
        i = 0
        while maxsplit < 0 or len(out) < maxsplit:
            j = self.find(sep, i)
            if j < 0:
                break
            out.append(self.mk(self.b[i:j]))
            i = j + m
        out.append(self.mk(self.b[i:]))
        return out

    def rsplit(self, sep=None, maxsplit=-1):
        maxsplit = int(maxsplit)
        if sep is None:
            if maxsplit < 0:
                return self.split()
            raise NotImplementedError("rsplit(None, k)")
        sep = self._coerce(sep)
        m = len(sep.b)
        out = []
        e = len(self.b)
        while maxsplit < 0 or len(out) < maxsplit:
            j = self.rfind(sep, 0, e)
            if j < 0:
                break
            out.append(self.mk(self.b[j + m:e]))
            e = j
        out.append(self.mk(self.b[:e]))
        out.reverse()
        return out

    def partition(self, sep):
        sep_c = self._coerce(sep)
        i = self.find(sep_c)
        if i < 0:
            return (self.mk(self.b), self.mk(()), self.mk(()))
        return (self.mk(self.b[:i]), self.mk(sep_c.b), self.mk(self.b[i + len(sep_c.b):]))

    def rpartition(self, sep):
        sep_c = self._coerce(sep)
        i = self.rfind(sep_c)
        if i < 0:
            return (self.mk(()), self.mk(()), self.mk(self.b))
        return (self.mk(self.b[:i]), self.mk(sep_c.b), self.mk(self.b[i + len(sep_c.b):]))

    def splitlines(self, keepends=False):
        # only \n / \r\n / \r for bytes; str has more line boundaries: restrict by fork
        ctx = Ctx.cur
        out = []
        i = 0
        n = len(self.b)
        start = 0
        brk = self._linebreaks()
        while i < n:
            x = self.b[i]
            if ctx.fork(in_ranges(x, ranges_of(brk))):
                end = i
                if ctx.fork(elem_eq(x, 13)) and i + 1 < n and ctx.fork(elem_eq(self.b[i + 1], 10)):
                    i += 1
                i += 1
                out.append(self.mk(self.b[start:(i if keepends else end)]))
                start = i
            else:
                i += 1
        if start < n:
            out.append(self.mk(self.b[start:]))
        return out

    def _linebreaks(self):
        return (10, 13)

    def _inset(self, x, chars):
        if chars is None:
            return self._ws(x)
        return disj([elem_eq(x, c) for c in self._coerce(chars).b])

    def lstrip(self, chars=None):
        ctx = Ctx.cur
        i = 0
        while i < len(self.b) and ctx.fork(self._inset(self.b[i], chars)):
            i += 1
        return self.mk(self.b[i:])

    def rstrip(self, chars=None):
        ctx = Ctx.cur
        j = len(self.b)
        while j > 0 and ctx.fork(self._inset(self.b[j - 1], chars)):
            j -= 1
        return self.mk(self.b[:j])

    def strip(self, chars=None):
        ctx = Ctx.cur
        i, j = 0, len(self.b)
        while i < j and ctx.fork(self._inset(self.b[i], chars)):
            i += 1
        while j > i and ctx.fork(self._inset(self.b[j - 1], chars)):
            j -= 1
        return self.mk(self.b[i:j])

    def replace(self, old, new, count=-1):
        old = self._coerce(old)
        new = self._coerce(new)
        if len(old.b) == 0:
            raise NotImplementedError("replace with empty pattern")
        out = ()
        i = 0
        k = 0
        while count < 0 or k < count:
            j = self.find(old, i)
            if j < 0:
                break
            out += self.b[i:j] + new.b
            i = j + len(old.b)
            k += 1
        out += self.b[i:]
        return self.mk(out)

    def join(self, parts):
        out = ()
        first = True
        for p in parts:
            if not first:
                out += self.b
            first = False
            out += self._coerce(p).b
        return self.mk(out)

    # ---- per-character functions (exact over the universe)
    def _map(self, f):
        return self.mk(charfn_int(x, f, self.universe) for x in self.b)

    def _all(self, f, empty=False):
        if not self.b:
            return empty
        return Ctx.cur.fork(conj([charfn_bool(x, f, self.universe) for x in self.b]))

    def isascii(self):
        return Ctx.cur.fork(conj([(x < 128) for x in self.b]))


def _simp(x):
    if isinstance(x, int):
        return x
    if z3.is_int_value(x):
        return x.as_long()
    return x


def _b_lower(c):
    return c + 32 if 65 <= c <= 90 else c


def _b_upper(c):
    return c - 32 if 97 <= c <= 122 else c


def _b_isspace(c):
    return c in (9, 10, 11, 12, 13, 32)


def _b_isdigit(c):
    return 48 <= c <= 57


def _b_isalpha(c):
    return 65 <= c <= 90 or 97 <= c <= 122


def _b_isalnum(c):
    return _b_isdigit(c) or _b_isalpha(c)


HEXVAL = {**{48 + i: i for i in range(10)}, **{97 + i: 10 + i for i in range(6)}, **{65 + i: 10 + i for i in range(6)}}


def _hexval_formula(x):
    if isinstance(x, int):
        return HEXVAL[x]
    return z3.If(x <= 57, x - 48, z3.If(x <= 70, x - 55, x - 87))


def _is_hex(x):
    return in_ranges(x, [(48, 57), (65, 70), (97, 102)])


def _is_dec(x):
    return in_ranges(x, [(48, 57)])


def _hexdigit_char(d):
    if isinstance(d, int):
        return 48 + d if d < 10 else 87 + d
    return z3.If(d < 10, 48 + d, 87 + d)


def _backslash_x(x):
    """code points of '\\xNN' for byte value x"""
    if isinstance(x, int):
        return (92, 120, _hexdigit_char(x // 16), _hexdigit_char(x % 16))
    return (92, 120, _hexdigit_char(x / 16), _hexdigit_char(x % 16))


def parse_int_seq(seq, base=10):
    """model of int(<bytes/str>, base) for base 10/16.  Exact when every element
    is an ASCII digit of the base (decided by one fork); otherwise the elements
    are enumerated and native int() decides (exhaustive but wide)."""
    ctx = Ctx.cur
    elems = seq.b
    isd = _is_dec if base == 10 else _is_hex
    if elems and ctx.fork(conj([isd(x) for x in elems])):
        v = 0
        for x in elems:
            d = (x - 48) if base == 10 else _hexval_formula(x)
            v = v * base + d
        return v if isinstance(v, int) else SInt(v)
    return int(seq.enumerate_concrete(), base) if base != 10 else int(seq.enumerate_concrete())


class SBytes(SSeq):
    __slots__ = ()
    elem_bits = 8
    universe = BYTE_UNIVERSE
    _is_space_native = staticmethod(_b_isspace)

    def lower(self):
        return self._map(_b_lower)

    def upper(self):
        return self._map(_b_upper)

    def isdigit(self):
        return self._all(_b_isdigit)

    def isalpha(self):
        return self._all(_b_isalpha)

    def isalnum(self):
        return self._all(_b_isalnum)

    def isspace(self):
        return self._all(_b_isspace)

    def hex(self):
        return self.enumerate_concrete().hex()

    def decode(self, encoding="utf-8", errors="strict"):
        enc = encoding.lower().replace("_", "-")
        if enc in ("latin1", "latin-1", "iso-8859-1"):
            return SStr.mk(self.b)
        if enc in ("ascii", "us-ascii"):
            return self._decode_ascii(errors)
        if enc in ("utf-8", "utf8"):
            return self._decode_utf8(errors)
        return self.enumerate_concrete().decode(encoding, errors)

    def _decode_ascii(self, errors):
        ctx = Ctx.cur
        out = []
        for i, x in enumerate(self.b):
            if ctx.fork(x < 128 if not isinstance(x, int) else x < 128):
                out.append(x)
            elif errors == "surrogateescape":
                out.append(x + 0xDC00)
            elif errors == "ignore":
                pass
            elif errors == "replace":
                out.append(0xFFFD)
            elif errors == "backslashreplace":
                out.extend(_backslash_x(x))
            else:
                raise UnicodeDecodeError("ascii", b"?", i, i + 1, "ordinal not in range(128)")
        return SStr.mk(out)

    def _decode_utf8(self, errors):
        """RFC 3629 decoding, one fork per non-ASCII lead byte class."""
        ctx = Ctx.cur
        b = self.b
        n = len(b)
        out = []
        i = 0

        def rng(x, lo, hi):
            return (lo <= x <= hi) if isinstance(x, int) else z3.And(x >= lo, x <= hi)

        while i < n:
            x = b[i]
            if ctx.fork(x < 128):
                out.append(x)
                i += 1
                continue
            cp = None
            k = 0
            if i + 1 < n and ctx.fork(conj([rng(x, 0xC2, 0xDF), rng(b[i + 1], 0x80, 0xBF)])):
                cp = (x - 0xC0) * 64 + (b[i + 1] - 0x80)
                k = 2
            elif i + 2 < n and ctx.fork(
                conj([
                    rng(x, 0xE0, 0xEF), rng(b[i + 1], 0x80, 0xBF), rng(b[i + 2], 0x80, 0xBF),
                    disj([neg(elem_eq(x, 0xE0)), rng(b[i + 1], 0xA0, 0xBF)]),
                    disj([neg(elem_eq(x, 0xED)), rng(b[i + 1], 0x80, 0x9F)]),
                ])
            ):
                cp = (x - 0xE0) * 4096 + (b[i + 1] - 0x80) * 64 + (b[i + 2] - 0x80)
                k = 3
            elif i + 3 < n and ctx.fork(
                conj([
                    rng(x, 0xF0, 0xF4), rng(b[i + 1], 0x80, 0xBF), rng(b[i + 2], 0x80, 0xBF),
                    rng(b[i + 3], 0x80, 0xBF),
                    disj([neg(elem_eq(x, 0xF0)), rng(b[i + 1], 0x90, 0xBF)]),
                    disj([neg(elem_eq(x, 0xF4)), rng(b[i + 1], 0x80, 0x8F)]),
                ])
            ):
                cp = (x - 0xF0) * 262144 + (b[i + 1] - 0x80) * 4096 + (b[i + 2] - 0x80) * 64 + (b[i + 3] - 0x80)
                k = 4
            if cp is not None:
                cp = _simp(z3.simplify(cp)) if not isinstance(cp, int) else cp
                if not isinstance(cp, int):
                    # bound of the claim: decoded non-ASCII code points are limited
                    # to the declared universe (exactness of per-char functions)
                    ctx.assume(in_ranges(cp, ranges_of([u for u in UNIVERSE if u >= 0x80])))
                    if "utf8-multibyte-restricted-to-universe" not in ctx.notes:
                        ctx.note("utf8-multibyte-restricted-to-universe")
                out.append(cp)
                i += k
                continue
            # invalid byte at i
            if errors == "surrogateescape":
                out.append(x + 0xDC00)
                i += 1
            elif errors == "ignore":
                i += 1
            elif errors == "replace":
                out.append(0xFFFD)
                i += 1
            elif errors == "backslashreplace":
                out.extend(_backslash_x(x))
                i += 1
            else:
                raise UnicodeDecodeError("utf-8", b"?", i, i + 1, "invalid start byte")
        return SStr.mk(out)

    def translate(self, table, delete=b""):
        if delete:
            raise NotImplementedError
        return self.enumerate_concrete().translate(table)


class SByteArray(SBytes):
    """mutable; never normalised to native."""

    __slots__ = ()

    @classmethod
    def mk(cls, elems):
        return cls(tuple(elems))

    @classmethod
    def _native(cls, elems):
        return bytearray(elems)

    def __getitem__(self, i):
        if isinstance(i, slice):
            i = slice(
                None if i.start is None else int(i.start),
                None if i.stop is None else int(i.stop),
                None if i.step is None else int(i.step),
            )
            return SByteArray(self.b[i])
        return self._elem(self.b[int(i)])

    def __setitem__(self, i, v):
        l = list(self.b)
        if isinstance(i, slice):
            i = slice(
                None if i.start is None else int(i.start),
                None if i.stop is None else int(i.stop),
                None if i.step is None else int(i.step),
            )
            l[i] = SBytes(v).b if not isinstance(v, SSeq) else v.b
        else:
            l[int(i)] = _simp(E(v))
        self.b = tuple(l)

    def __delitem__(self, i):
        l = list(self.b)
        if isinstance(i, slice):
            i = slice(
                None if i.start is None else int(i.start),
                None if i.stop is None else int(i.stop),
                None if i.step is None else int(i.step),
            )
        else:
            i = int(i)
        del l[i]
        self.b = tuple(l)

    def __iadd__(self, o):
        self.b = self.b + self._coerce(o).b
        return self

    def extend(self, o):
        self.b = self.b + self._coerce(o).b

    def append(self, x):
        self.b = self.b + (_simp(E(x)),)

    def clear(self):
        self.b = ()

    def copy(self):
        return SByteArray(self.b)

    __hash__ = None  # type: ignore[assignment]


def _s_isspace(c):
    return chr(c).isspace()


class SStr(SSeq):
    __slots__ = ()
    elem_bits = None
    universe = UNIVERSE
    _is_space_native = staticmethod(_s_isspace)

    @classmethod
    def _native(cls, elems):
        return "".join(map(chr, elems))

    def _elem(self, x):
        return self.mk((x,))

    def _linebreaks(self):
        return (10, 11, 12, 13, 0x1C, 0x1D, 0x1E, 0x85, 0x2028, 0x2029)

    def _case(self, fn):
        """lower/upper: chars whose mapping changes length are forked out."""
        ctx = Ctx.cur
        special = [u for u in UNIVERSE if len(fn(chr(u))) != 1]
        out = []
        for x in self.b:
            if isinstance(x, int):
                out.extend(ord(c) for c in fn(chr(x)))
                continue
            done = False
            for u in special:
                if ctx.fork(x == u):
                    out.extend(ord(c) for c in fn(chr(u)))
                    done = True
                    break
            if not done:
                out.append(charfn_int(x, _CASEFN[fn], UNIVERSE))
        return self.mk(out)

    def lower(self):
        return self._case(str.lower)

    def upper(self):
        return self._case(str.upper)

    def casefold(self):
        return self._case(str.casefold)

    def title(self):
        return self.enumerate_concrete().title()

    def isdigit(self):
        return self._all(lambda c: chr(c).isdigit())

    def isdecimal(self):
        return self._all(lambda c: chr(c).isdecimal())

    def isnumeric(self):
        return self._all(lambda c: chr(c).isnumeric())

    def isalpha(self):
        return self._all(lambda c: chr(c).isalpha())

    def isalnum(self):
        return self._all(lambda c: chr(c).isalnum())

    def isspace(self):
        return self._all(_s_isspace)

    def isprintable(self):
        return self._all(lambda c: chr(c).isprintable(), empty=True)

    def encode(self, encoding="utf-8", errors="strict"):
        enc = encoding.lower().replace("_", "-")
        ctx = Ctx.cur
        out = []
        if enc in ("utf-8", "utf8"):
            for i, x in enumerate(self.b):
                if ctx.fork(x < 0x80):
                    out.append(x)
                elif ctx.fork(x < 0x800):
                    out += [0xC0 + x / 64, 0x80 + x % 64]
                elif ctx.fork(conj([x >= 0xD800, x <= 0xDFFF])):
                    if errors == "surrogateescape" and ctx.fork(conj([x >= 0xDC80, x <= 0xDCFF])):
                        out.append(x - 0xDC00)
                    elif errors == "surrogatepass":
                        out += [0xE0 + x / 4096, 0x80 + (x / 64) % 64, 0x80 + x % 64]
                    elif errors == "ignore":
                        pass
                    elif errors == "replace":
                        out.append(63)
                    else:
                        raise UnicodeEncodeError("utf-8", "?", i, i + 1, "surrogates not allowed")
                elif ctx.fork(x < 0x10000):
                    out += [0xE0 + x / 4096, 0x80 + (x / 64) % 64, 0x80 + x % 64]
                else:
                    out += [0xF0 + x / 262144, 0x80 + (x / 4096) % 64, 0x80 + (x / 64) % 64, 0x80 + x % 64]
            return SBytes.mk(_simp(z3.simplify(v)) if not isinstance(v, int) else v for v in out)
        if enc in ("latin1", "latin-1", "iso-8859-1", "ascii", "us-ascii"):
            lim = 256 if enc.startswith(("latin", "iso")) else 128
            for i, x in enumerate(self.b):
                if ctx.fork(x < lim):
                    out.append(x)
                elif errors == "surrogateescape" and ctx.fork(conj([x >= 0xDC80, x <= 0xDCFF])):
                    out.append(x - 0xDC00)
                elif errors == "ignore":
                    pass
                elif errors == "replace":
                    out.append(63)
                else:
                    raise UnicodeEncodeError(enc, "?", i, i + 1, "ordinal not in range")
            return SBytes.mk(out)
        return self.enumerate_concrete().encode(encoding, errors)

    def format(self, *a, **k):
        return self.enumerate_concrete().format(*a, **k)

    def translate(self, table):
        return self.enumerate_concrete().translate(table)


def _mk_casefn(fn):
    def f(c):
        r = fn(chr(c))
        return ord(r) if len(r) == 1 else c
    return f


_CASEFN = {str.lower: _mk_casefn(str.lower), str.upper: _mk_casefn(str.upper), str.casefold: _mk_casefn(str.casefold)}


class SymSet:
    """set display / comprehension containing symbolic members (no hashing)."""

    def __init__(self, elts):
        self.elts = list(elts)

    def _has(self, x):
        return disj([sym_eq(x, c) for c in self.elts])

    def __contains__(self, x):
        return Ctx.cur.fork(self._has(x))

    def __and__(self, o):
        other = list(o.elts) if isinstance(o, SymSet) else list(o)
        return _SymSetAnd(self.elts, other)

    __rand__ = __and__

    def __iter__(self):
        return iter(self.elts)

    def __bool__(self):
        return bool(self.elts)

    def __len__(self):
        # forks on equalities between members
        seen = []
        ctx = Ctx.cur
        for x in self.elts:
            if not ctx.fork(disj([sym_eq(x, c) for c in seen])):
                seen.append(x)
        return len(seen)

    def add(self, x):
        self.elts.append(x)


class _SymSetAnd:
    def __init__(self, a, b):
        self.a, self.b = a, b

    def __bool__(self):
        return Ctx.cur.fork(disj([sym_eq(x, c) for x in self.a for c in self.b]))


SYM_TYPES = frozenset({SBool, SInt, SBytes, SByteArray, SStr, SymSet})

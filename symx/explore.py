"""Path exploration (re-execution DFS) and the parallel job runner."""
from __future__ import annotations

import importlib
import os
import sys
import time
import traceback

import z3

from .core import Abort, Ctx, Incomplete, SBool, StepBudget


class Violation(Exception):
    """raised by a harness when an invariant is broken on the current path"""

    def __init__(self, tag, detail=""):
        super().__init__(tag, detail)
        self.tag = tag
        self.detail = detail


def _to_expr(prop):
    if isinstance(prop, SBool):
        return prop.e
    if prop is True or prop is False:
        return prop
    if z3.is_expr(prop):
        if z3.is_true(prop):
            return True
        if z3.is_false(prop):
            return False
        return prop
    return bool(prop)


def explore(run, *, time_limit=120.0, max_paths=10 ** 9, max_viol=8, step_budget=400_000,
            qtimeout_ms=20_000, sample_per_tag=1):
    """run(ctx) -> (prop, tag) | (prop, tag, info).  Returns a result dict."""
    t0 = time.time()
    stack = [[]]
    res = {
        "paths": 0, "infeasible": 0, "checks": 0, "solver_s": 0.0, "unknown": 0,
        "realised_paths": 0, "realised_why": {}, "step_budget_hits": 0, "timed_out": False,
        "outcomes": {}, "violations": [], "samples": [], "entered": set(), "notes": set(),
        "obligations": 0, "discharged": 0, "errors": [], "nontrivial": 0,
    }
    seen_viol_tags = {}
    sampled = {}
    while stack:
        if time.time() - t0 > time_limit or res["paths"] >= max_paths:
            res["timed_out"] = True
            break
        prefix = stack.pop()
        ctx = Ctx(prefix, step_budget=step_budget, qtimeout_ms=qtimeout_ms)
        Ctx.cur = ctx
        prop = tag = info = None
        viol = None
        try:
            try:
                r = run(ctx)
                prop, tag = r[0], r[1]
                info = r[2] if len(r) > 2 else None
            except Violation as v:
                prop, tag, info = False, "VIOLATION:" + v.tag, v.detail
            except (Abort, Incomplete, StepBudget):
                raise
            except Exception as e:  # unexpected exception out of the harness
                tb = traceback.extract_tb(e.__traceback__)
                where = f"{os.path.basename(tb[-1].filename)}:{tb[-1].name}" if tb else "?"
                prop, tag = False, f"UNCAUGHT:{type(e).__name__}@{where}"
                info = "".join(traceback.format_exception(type(e), e, e.__traceback__)[-6:])
        except Abort:
            res["infeasible"] += 1
            _push_alts(stack, ctx, prefix)
            _acc(res, ctx)
            continue
        except Incomplete:
            res["unknown"] += 1
            _push_alts(stack, ctx, prefix)
            _acc(res, ctx)
            continue
        except StepBudget:
            res["step_budget_hits"] += 1
            prop, tag, info = False, "STEP-BUDGET", "per-path step budget exhausted"
        res["paths"] += 1
        if ctx.entered and ctx.trail:
            res["nontrivial"] += 1
        res["outcomes"][tag] = res["outcomes"].get(tag, 0) + 1
        _push_alts(stack, ctx, prefix)
        if ctx.realised:
            res["realised_paths"] += 1
            for w in ctx.realised:
                res["realised_why"][w] = res["realised_why"].get(w, 0) + 1
        # final obligation: PC and not prop
        p = _to_expr(prop)
        res["obligations"] += 1
        if p is True:
            res["discharged"] += 1
        else:
            model = None
            if p is False:
                try:
                    model = ctx._model()
                except (Abort, Incomplete):
                    model = None
                    if ctx.unknown:
                        pass
            else:
                ctx.solver.push()
                ctx.solver.add(z3.Not(p))
                r = ctx._check()
                if r == z3.sat:
                    model = ctx.solver.model()
                elif r == z3.unsat:
                    res["discharged"] += 1
                else:
                    ctx.unknown += 1
                ctx.solver.pop()
            if model is not None:
                n = seen_viol_tags.get(tag, 0)
                seen_viol_tags[tag] = n + 1
                if n < max_viol:
                    res["violations"].append({"tag": tag, "witness": ctx.witness(model), "info": _short(info)})
        if sampled.get(tag, 0) < sample_per_tag and len(res["samples"]) < 12:
            try:
                m = ctx._model()
                res["samples"].append({"tag": tag, "inputs": _compact(ctx.witness(m)), "decisions": len(ctx.trail)})
                sampled[tag] = sampled.get(tag, 0) + 1
            except (Abort, Incomplete):
                pass
        _acc(res, ctx)
    res["wall_s"] = time.time() - t0
    res["entered"] = sorted(res["entered"])
    res["notes"] = sorted(res["notes"])
    res["pending_prefixes"] = len(stack)
    Ctx.cur = None
    return res


def _short(info):
    if info is None:
        return None
    s = info if isinstance(info, str) else repr(info)
    return s[-1500:]


def _compact(w):
    """group name[i] entries into lists for readability"""
    out = {}
    for k, v in w.items():
        if k.endswith("]") and "[" in k:
            base, idx = k[:-1].rsplit("[", 1)
            out.setdefault(base, {})[int(idx)] = v
        else:
            out[k] = v
    for k, v in list(out.items()):
        if isinstance(v, dict):
            out[k] = [v[i] for i in sorted(v)]
    return out


def _acc(res, ctx):
    res["checks"] += ctx.n_checks
    res["solver_s"] += ctx.solver_s
    res["unknown"] += ctx.unknown
    res["entered"] |= ctx.entered
    res["notes"] |= set(ctx.notes)


def _push_alts(stack, ctx, prefix):
    tr = ctx.trail
    base = [(t, p) for (t, _o, p) in tr]
    for i in range(len(tr) - 1, len(prefix) - 1, -1):
        taken, other, payload = tr[i]
        if other:
            stack.append(base[:i] + [(not taken, payload)])


# ------------------------------------------------------------------ jobs
def run_job(job):
    """job: dict(module=, func=, params=, limits=).  Executed in a worker."""
    from . import hook

    hook.install(job.get("extra_roots"))
    sys.setrecursionlimit(20000)
    mod = importlib.import_module(job["module"])
    if hasattr(mod, "setup_models"):
        mod.setup_models()
    fn = getattr(mod, job["func"])
    params = job.get("params", {})
    lim = job.get("limits", {})
    t0 = time.time()
    try:
        r = explore(lambda ctx: fn(ctx, **params), **lim)
    except BaseException as e:  # harness construction failure
        r = {"fatal": "".join(traceback.format_exception(type(e), e, e.__traceback__))[-3000:],
             "paths": 0, "violations": [], "outcomes": {}, "checks": 0, "solver_s": 0, "unknown": 0,
             "realised_paths": 0, "realised_why": {}, "step_budget_hits": 0, "timed_out": False,
             "samples": [], "entered": [], "notes": [], "obligations": 0, "discharged": 0,
             "infeasible": 0, "pending_prefixes": 0, "nontrivial": 0, "wall_s": time.time() - t0}
    r["job"] = {"name": job.get("name"), "module": job["module"], "func": job["func"], "params": params}
    return r


def run_jobs(jobs, nproc=None, progress=None):
    import concurrent.futures as cf
    import multiprocessing as mp

    nproc = nproc or min(16, os.cpu_count() or 4, max(1, len(jobs)))
    if len(jobs) == 0:
        return []
    ctx = mp.get_context("fork")
    out = [None] * len(jobs)
    with cf.ProcessPoolExecutor(max_workers=nproc, mp_context=ctx, max_tasks_per_child=None) as ex:
        futs = {ex.submit(run_job, j): i for i, j in enumerate(jobs)}
        for f in cf.as_completed(futs):
            i = futs[f]
            try:
                out[i] = f.result()
            except BaseException as e:
                out[i] = {"fatal": repr(e), "paths": 0, "violations": [], "outcomes": {}, "checks": 0,
                          "solver_s": 0, "unknown": 0, "realised_paths": 0, "realised_why": {},
                          "step_budget_hits": 0, "timed_out": False, "samples": [], "entered": [],
                          "notes": [], "obligations": 0, "discharged": 0, "infeasible": 0,
                          "pending_prefixes": 0, "wall_s": 0, "nontrivial": 0,
                          "job": {"name": jobs[i].get("name"), "module": jobs[i]["module"],
                                  "func": jobs[i]["func"], "params": jobs[i].get("params", {})}}
            if progress:
                progress(i, out[i])
    return out

"""Path exploration (re-execution DFS) and the parallel job runner."""
from __future__ import annotations

import importlib
import os
import sys
import time
import traceback

import z3

from .core import Abort, Ctx, Incomplete, SBool, StepBudget


class Violation(Exception):
    """raised by a harness when an invariant is broken on the current path"""

    def __init__(self, tag, detail=""):
        super().__init__(tag, detail)
        self.tag = tag
        self.detail = detail


def _to_expr(prop):
    if isinstance(prop, SBool):
        return prop.e
    if prop is True or prop is False:
        return prop
    if z3.is_expr(prop):
        if z3.is_true(prop):
            return True
        if z3.is_false(prop):
            return False
        return prop
    return bool(prop)


class PathTimeout(BaseException):
    """one path of the code under test did not finish within the per-path wall limit"""


def _on_alarm(signum, frame):
    raise PathTimeout()


def explore(run, *, time_limit=120.0, max_paths=10 ** 9, max_viol=24, step_budget=400_000,
            qtimeout_ms=20_000, sample_per_tag=1, initial_stack=None, keep_pending=False, path_timeout=90.0):
    """run(ctx) -> (prop, tag) | (prop, tag, info).  Returns a result dict.

    initial_stack: decision prefixes to explore (default: the root).  keep_pending: when the
    time limit stops the exploration, return the unexplored prefixes in res["pending"] so that
    the caller can hand them to other workers (each prefix denotes a disjoint subtree)."""
    t0 = time.time()
    stack = [list(map(tuple, p)) for p in initial_stack] if initial_stack is not None else [[]]
    res = {
        "paths": 0, "infeasible": 0, "checks": 0, "solver_s": 0.0, "unknown": 0,
        "realised_paths": 0, "realised_why": {}, "step_budget_hits": 0, "timed_out": False,
        "outcomes": {}, "violations": [], "samples": [], "entered": set(), "notes": set(),
        "obligations": 0, "discharged": 0, "errors": [], "nontrivial": 0,
    }
    seen_viol_tags = {}
    sampled = {}
    import signal
    import threading

    use_alarm = bool(path_timeout) and threading.current_thread() is threading.main_thread() and hasattr(signal, "setitimer")
    if use_alarm:
        old_handler = signal.signal(signal.SIGALRM, _on_alarm)
    while stack:
        if time.time() - t0 > time_limit or res["paths"] >= max_paths:
            res["timed_out"] = True
            res["stop_reason"] = "time" if res["paths"] < max_paths else "paths"
            break
        prefix = stack.pop()
        ctx = Ctx(prefix, step_budget=step_budget, qtimeout_ms=qtimeout_ms)
        Ctx.cur = ctx
        prop = tag = info = None
        viol = None
        try:
            try:
                if use_alarm:
                    signal.setitimer(signal.ITIMER_REAL, path_timeout)
                try:
                    r = run(ctx)
                finally:
                    if use_alarm:
                        signal.setitimer(signal.ITIMER_REAL, 0)
                prop, tag = r[0], r[1]
                info = r[2] if len(r) > 2 else None
            except PathTimeout:
                # a hang (or super-linear work) in the code under test is a finding, not a stuck check
                prop, tag = False, "PATH-TIMEOUT"
                info = {"key": "path-does-not-finish", "limit_s": path_timeout}
            except Violation as v:
                prop, tag, info = False, "VIOLATION:" + v.tag, v.detail
            except (Abort, Incomplete, StepBudget):
                raise
            except Exception as e:  # unexpected exception out of the harness
                tb = traceback.extract_tb(e.__traceback__)
                where = f"{os.path.basename(tb[-1].filename)}:{tb[-1].name}" if tb else "?"
                prop, tag = False, f"UNCAUGHT:{type(e).__name__}@{where}"
                info = "".join(traceback.format_exception(type(e), e, e.__traceback__)[-6:])
        except Abort:
            res["infeasible"] += 1
            _push_alts(stack, ctx, prefix)
            _acc(res, ctx)
            continue
        except Incomplete:
            res["unknown"] += 1
            _push_alts(stack, ctx, prefix)
            _acc(res, ctx)
            continue
        except StepBudget:
            res["step_budget_hits"] += 1
            prop, tag, info = False, "STEP-BUDGET", "per-path step budget exhausted"
        res["paths"] += 1
        if ctx.entered and ctx.trail:
            res["nontrivial"] += 1
        res["outcomes"][tag] = res["outcomes"].get(tag, 0) + 1
        _push_alts(stack, ctx, prefix)
        if ctx.realised:
            res["realised_paths"] += 1
            for w in ctx.realised:
                res["realised_why"][w] = res["realised_why"].get(w, 0) + 1
        # final obligation: PC and not prop
        p = _to_expr(prop)
        res["obligations"] += 1
        if p is True:
            res["discharged"] += 1
        else:
            model = None
            if p is False:
                try:
                    model = ctx._model()
                except (Abort, Incomplete):
                    model = None
                    if ctx.unknown:
                        pass
            else:
                ctx.solver.push()
                ctx.solver.add(z3.Not(p))
                r = ctx._check()
                if r == z3.sat:
                    model = ctx.solver.model()
                elif r == z3.unsat:
                    res["discharged"] += 1
                else:
                    ctx.unknown += 1
                ctx.solver.pop()
            if model is not None:
                n = seen_viol_tags.get(tag, 0)
                seen_viol_tags[tag] = n + 1
                if n < max_viol:
                    res["violations"].append({"tag": tag, "witness": ctx.witness(model), "info": _short(info)})
        if sampled.get(tag, 0) < sample_per_tag and len(res["samples"]) < 12:
            try:
                m = ctx._model()
                res["samples"].append({"tag": tag, "inputs": _compact(ctx.witness(m)), "decisions": len(ctx.trail)})
                sampled[tag] = sampled.get(tag, 0) + 1
            except (Abort, Incomplete):
                pass
        _acc(res, ctx)
    if use_alarm:
        signal.setitimer(signal.ITIMER_REAL, 0)
        signal.signal(signal.SIGALRM, old_handler)
    res["wall_s"] = time.time() - t0
    res["entered"] = sorted(res["entered"])
    res["notes"] = sorted(res["notes"])
    res["pending_prefixes"] = len(stack)
    if keep_pending and stack and res.get("stop_reason") == "time":
        res["pending"] = [[list(d) for d in p] for p in stack]
    Ctx.cur = None
    return res


def _short(info):
    if info is None:
        return None
    s = info if isinstance(info, str) else repr(info)
    return s[-1500:]


def _compact(w):
    """group name[i] entries into lists for readability"""
    out = {}
    for k, v in w.items():
        if k.endswith("]") and "[" in k:
            base, idx = k[:-1].rsplit("[", 1)
            out.setdefault(base, {})[int(idx)] = v
        else:
            out[k] = v
    for k, v in list(out.items()):
        if isinstance(v, dict):
            out[k] = [v[i] for i in sorted(v)]
    return out


def _acc(res, ctx):
    res["checks"] += ctx.n_checks
    res["solver_s"] += ctx.solver_s
    res["unknown"] += ctx.unknown
    res["entered"] |= ctx.entered
    res["notes"] |= set(ctx.notes)


def _push_alts(stack, ctx, prefix):
    tr = ctx.trail
    base = [(t, p) for (t, _o, p) in tr]
    for i in range(len(tr) - 1, len(prefix) - 1, -1):
        taken, other, payload = tr[i]
        if other:
            stack.append(base[:i] + [(not taken, payload)])


# ------------------------------------------------------------------ jobs
def run_job(job):
    """job: dict(module=, func=, params=, limits=).  Executed in a worker."""
    from . import hook

    hook.install(job.get("extra_roots"))
    sys.setrecursionlimit(20000)
    try:
        # a runaway allocation in one path must end as MemoryError in that path (reported like any other
        # escaping exception), not as the kernel killing the worker and taking the whole pool down
        import resource

        lim = int(os.environ.get("VERIF_WORKER_MEM_GB", "12")) << 30
        soft, hard = resource.getrlimit(resource.RLIMIT_AS)
        if soft == resource.RLIM_INFINITY or soft > lim:
            resource.setrlimit(resource.RLIMIT_AS, (lim, hard))
    except Exception:  # noqa: BLE001
        pass
    mod = importlib.import_module(job["module"])
    if hasattr(mod, "setup_models"):
        mod.setup_models()
    fn = getattr(mod, job["func"])
    params = job.get("params", {})
    lim = dict(job.get("limits", {}))
    t0 = time.time()
    deadline = job.get("_deadline")
    if deadline is not None:
        # work sharing: run one slice; what is left goes back to the pool
        left = deadline - t0
        if left <= 1.0:
            pend = job.get("_initial_stack") or [[]]
            r = _empty_result(t0)
            r.update(timed_out=True, stop_reason="time", pending_prefixes=len(pend), pending=pend)
            r["job"] = {"name": job.get("name"), "module": job["module"], "func": job["func"], "params": params}
            return r
        lim["time_limit"] = min(lim.get("time_limit", 120.0), job.get("_slice", 1e9), left)
        lim["keep_pending"] = True
        if job.get("_initial_stack") is not None:
            lim["initial_stack"] = job["_initial_stack"]
    try:
        r = explore(lambda ctx: fn(ctx, **params), **lim)
    except BaseException as e:  # harness construction failure
        r = {"fatal": "".join(traceback.format_exception(type(e), e, e.__traceback__))[-3000:],
             "paths": 0, "violations": [], "outcomes": {}, "checks": 0, "solver_s": 0, "unknown": 0,
             "realised_paths": 0, "realised_why": {}, "step_budget_hits": 0, "timed_out": False,
             "samples": [], "entered": [], "notes": [], "obligations": 0, "discharged": 0,
             "infeasible": 0, "pending_prefixes": 0, "nontrivial": 0, "wall_s": time.time() - t0}
    r["job"] = {"name": job.get("name"), "module": job["module"], "func": job["func"], "params": params}
    return r


def _empty_result(t0=None):
    return {"paths": 0, "violations": [], "outcomes": {}, "checks": 0, "solver_s": 0.0, "unknown": 0,
            "realised_paths": 0, "realised_why": {}, "step_budget_hits": 0, "timed_out": False,
            "samples": [], "entered": [], "notes": [], "obligations": 0, "discharged": 0,
            "infeasible": 0, "pending_prefixes": 0, "nontrivial": 0, "errors": [],
            "wall_s": (time.time() - t0) if t0 else 0.0}


_SUM = ("paths", "infeasible", "checks", "solver_s", "unknown", "realised_paths", "step_budget_hits",
        "obligations", "discharged", "nontrivial", "wall_s")


def _merge(acc, r):
    """fold the result of one slice of a job into the accumulated result of that job"""
    if acc is None:
        acc = _empty_result()
        acc["job"] = r.get("job")
        acc["slices"] = 0
        acc["pending_prefixes"] = 0
    acc["slices"] += 1
    for k in _SUM:
        acc[k] = acc.get(k, 0) + (r.get(k, 0) or 0)
    for k in ("outcomes", "realised_why"):
        for t, n in (r.get(k) or {}).items():
            acc[k][t] = acc[k].get(t, 0) + n
    acc["entered"] = sorted(set(acc["entered"]) | set(r.get("entered") or ()))
    acc["notes"] = sorted(set(acc["notes"]) | set(r.get("notes") or ()))
    seen = {v["tag"] for v in acc["violations"]}
    per_tag = {}
    for v in acc["violations"]:
        per_tag[v["tag"]] = per_tag.get(v["tag"], 0) + 1
    for v in r.get("violations") or ():
        if per_tag.get(v["tag"], 0) < 48:
            acc["violations"].append(v)
            per_tag[v["tag"]] = per_tag.get(v["tag"], 0) + 1
    have = {s_["tag"] for s_ in acc["samples"]}
    for s_ in r.get("samples") or ():
        if s_["tag"] not in have and len(acc["samples"]) < 12:
            acc["samples"].append(s_)
            have.add(s_["tag"])
    acc["errors"] = (acc.get("errors") or []) + list(r.get("errors") or ())
    if r.get("fatal"):
        acc["fatal"] = r["fatal"]
    return acc


def _worker_main(wid, task_q, result_q):
    """one worker process: takes (task id, job) from the queue, says which one it started, returns the result"""
    while True:
        try:
            item = task_q.get()
        except (MemoryError, EOFError, OSError):
            # this process can no longer take work (out of address space, or the queue stream was
            # damaged by a reader that died half way through a message): leave, the parent replaces it
            os._exit(70)
        if item is None:
            return
        tid, job = item
        result_q.put(("start", wid, tid, None))
        try:
            r = run_job(job)
        except BaseException as e:  # noqa: BLE001
            r = _empty_result()
            r["fatal"] = "".join(traceback.format_exception(type(e), e, e.__traceback__))[-3000:]
            r["job"] = {"name": job.get("name"), "module": job["module"], "func": job["func"], "params": job.get("params", {})}
        result_q.put(("done", wid, tid, r))
        try:
            import resource

            # z3's term tables and the interpreter's arenas only ever grow over many thousands of paths:
            # a worker that has become big retires (the parent starts a fresh one in its place)
            if resource.getrusage(resource.RUSAGE_SELF).ru_maxrss > int(os.environ.get("VERIF_WORKER_RETIRE_MB", "1500")) * 1024:
                return
        except Exception:  # noqa: BLE001
            pass


def run_jobs(jobs, nproc=None, progress=None, budget_s=None, slice_s=None):
    """Run the jobs on worker processes.

    budget_s (wall seconds for the whole call) switches on work sharing: a job runs in slices of
    at most slice_s seconds; when a slice ends with unexplored decision prefixes they are split
    into chunks and queued behind the jobs that have not had a first slice, so that cores that
    run out of jobs take over subtrees of the long ones.  A job is exhaustive only when no prefix
    of it is left at the deadline.

    A worker that dies (killed by the kernel, abort inside a C library) costs only the slice it was
    running: that slice is reported as crashed, the worker is replaced, everything else goes on."""
    import multiprocessing as mp
    import queue as _queue

    nproc = nproc or min(16, os.cpu_count() or 4, max(1, len(jobs)))
    if len(jobs) == 0:
        return []
    ctx = mp.get_context("fork")
    share = budget_s is not None
    deadline = time.time() + budget_s if share else None
    acc = [None] * len(jobs)
    left_over = [0] * len(jobs)
    finished = [False] * len(jobs)
    outstanding = [0] * len(jobs)
    task_q = ctx.Queue()
    result_q = ctx.Queue()
    tasks = {}  # tid -> (job index, job dict)
    running = {}  # wid -> tid
    next_tid = [0]

    def submit(i, jj):
        tid = next_tid[0]
        next_tid[0] += 1
        tasks[tid] = (i, jj)
        outstanding[i] += 1
        task_q.put((tid, jj))

    def spawn(wid):
        p = ctx.Process(target=_worker_main, args=(wid, task_q, result_q), daemon=True)
        p.start()
        return p

    def crashed(i, why):
        r = _empty_result()
        r["fatal"] = why
        r["job"] = {"name": jobs[i].get("name"), "module": jobs[i]["module"], "func": jobs[i]["func"],
                    "params": jobs[i].get("params", {})}
        return r

    def finish_slice(i, r):
        outstanding[i] -= 1
        pend = r.pop("pending", None)
        acc[i] = _merge(acc[i], r)
        if pend and share and time.time() < deadline - 1.0 and not r.get("fatal"):
            # hand the unexplored subtrees to the pool, shallow (big) ones spread out
            nchunks = max(1, min(len(pend), nproc))
            for k in range(nchunks):
                jj = dict(jobs[i])
                jj["_deadline"] = deadline
                jj["_slice"] = slice_s or 60.0
                jj["_initial_stack"] = pend[k::nchunks]
                submit(i, jj)
        elif r.get("timed_out"):
            left_over[i] += r.get("pending_prefixes", 0) or (len(pend) if pend else 0) or 1
        if outstanding[i] == 0 and not finished[i]:
            finished[i] = True
            acc[i]["timed_out"] = left_over[i] > 0
            acc[i]["pending_prefixes"] = left_over[i]
            if progress:
                progress(i, acc[i])

    for i, j in enumerate(jobs):
        jj = dict(j)
        if share and not j.get("twin"):
            jj["_deadline"] = deadline
            jj["_slice"] = slice_s or 60.0
        submit(i, jj)
    workers = {wid: spawn(wid) for wid in range(nproc)}
    last_news = time.time()
    try:
        while tasks:
            try:
                kind, wid, tid, r = result_q.get(timeout=1.0)
                last_news = time.time()
            except (EOFError, OSError, MemoryError):
                continue
            except _queue.Empty:
                if share and time.time() > deadline + 90 and time.time() - last_news > 90 and not running:
                    # past the budget, nothing running, nothing reported for a while: whatever is still
                    # on the books was lost with a worker that died while fetching it
                    for tid in list(tasks):
                        i, _jj = tasks.pop(tid)
                        finish_slice(i, crashed(i, "a slice of this job was lost with a worker that died while fetching it"))
                    break
                # anybody dead?
                for wid, p in list(workers.items()):
                    if not p.is_alive():
                        tid = running.pop(wid, None)
                        workers[wid] = spawn(wid)
                        if tid is not None and tid in tasks:
                            i, _jj = tasks.pop(tid)
                            finish_slice(i, crashed(i, f"worker process died while running a slice of this job "
                                                       f"(exit code {p.exitcode}): killed by the kernel or aborted inside a C library"))
                continue
            if kind == "start":
                running[wid] = tid
                continue
            running.pop(wid, None)
            if tid in tasks:
                i, _jj = tasks.pop(tid)
                finish_slice(i, r)
    finally:
        for _ in workers:
            task_q.put(None)
        for p in workers.values():
            p.join(timeout=5)
            if p.is_alive():
                p.terminate()
    return acc

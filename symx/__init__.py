from .core import *  # noqa: F401,F403
from .core import Ctx, ConcreteCtx, Abort, StepBudget, Incomplete
from . import explore as _explore_mod
from .explore import Violation, run_jobs, run_job

explore_paths = _explore_mod.explore

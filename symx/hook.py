"""Import hook: loads `aiohttp.*` (and harness oracles) from source, applying a
mechanical AST instrumentation that routes calls / `in` / `+` / set displays /
f-strings through the symbolic-aware runtime `_sx_` (class SX below).

With no symbolic value present every rewritten construct behaves exactly like
the original (validated by `check selftest`, which runs the repository's own
tests under this hook).
"""
from __future__ import annotations

import ast
import importlib.abc
import importlib.machinery
import importlib.util
import os
import re
import struct
import sys
import types

from . import core, rx
from .core import (SYM_TYPES, Ctx, SBool, SByteArray, SBytes, SInt, SSeq, SStr,
                   SymSet, conj, disj, mkbool, neg, sym_eq)

REPO = os.environ.get("VERIF_REPO_ROOT", "/repo")

SKIP_FUNCS = {
    "super", "locals", "globals", "vars", "eval", "exec", "__import__", "issubclass",
    "TypeVar", "cast", "overload", "NewType", "dir", "id", "type",
}

_CFUNC_TYPES = (types.BuiltinFunctionType, types.MethodDescriptorType, types.WrapperDescriptorType,
                types.MethodWrapperType, types.ClassMethodDescriptorType)


def _anysym(a, k):
    for x in a:
        if type(x) in SYM_TYPES:
            return True
    if k:
        for x in k.values():
            if type(x) in SYM_TYPES:
                return True
    return False


def _deepsym(x, depth=2):
    t = type(x)
    if t in SYM_TYPES:
        return True
    if depth and t in (list, tuple):
        for y in x:
            if _deepsym(y, depth - 1):
                return True
    return False


OPAQUE = "<sym>"
# decimal rendering of symbolic ints inside f-strings / % / str(): off by default
# (diagnostic messages only); harnesses of serialisers switch it on
RENDER_SINT = False


def _to_sseq(x):
    if isinstance(x, SSeq):
        return x
    if isinstance(x, str):
        return SStr(x)
    if isinstance(x, bytearray):
        return SByteArray(x)
    return SBytes(x)


# ----------------------------------------------------------------- models
def m_int(x=0, base=None):
    if isinstance(x, SInt):
        return x
    if isinstance(x, SBool):
        return SInt(core.z3.If(x.e, 1, 0), 1)
    if isinstance(x, SSeq):
        b = 10 if base is None else int(base)
        if b in (10, 16):
            return core.parse_int_seq(x, b)
        return int(x.enumerate_concrete(), b)
    if base is None:
        return int(x)
    return int(x, int(base))


def m_bool(x=False):
    return bool(x)


def m_len(x):
    return len(x)


def m_bytes(x=b"", *a):
    if isinstance(x, SSeq):
        if isinstance(x, SStr):
            return x.encode(*a)
        return SBytes.mk(x.b)
    if isinstance(x, SInt):
        return bytes(int(x))
    if isinstance(x, (list, tuple)) and _deepsym(x, 1):
        return SBytes.mk(core.E(v) for v in x)
    return bytes(x, *a)


def m_bytearray(x=b"", *a):
    if isinstance(x, SSeq):
        return SByteArray(x.b)
    if isinstance(x, (list, tuple)) and _deepsym(x, 1):
        return SByteArray(core.E(v) for v in x)
    return bytearray(int(x)) if isinstance(x, SInt) else bytearray(x, *a)


def m_str(x="", *a):
    if isinstance(x, SStr):
        return x
    if isinstance(x, SBytes):
        if a:
            return x.decode(*a)
        return OPAQUE
    if isinstance(x, SInt):
        return sint_to_str(x) if RENDER_SINT else OPAQUE
    return str(x, *a)


def sint_to_str(x):
    """decimal rendering of a symbolic int: forks on the number of digits"""
    ctx = Ctx.cur
    e = x.e
    if ctx.fork(e < 0):
        body = sint_to_str(SInt(-e))
        return SStr.mk((45,) + SStr(body).b)
    nd = 1
    while not ctx.fork(e < 10 ** nd):
        nd += 1
        if nd > 30:
            return str(int(x))
    return SStr.mk([48 + (e / (10 ** (nd - 1 - i))) % 10 for i in range(nd)])


def m_repr(x):
    if type(x) in SYM_TYPES:
        return OPAQUE
    return repr(x)


def m_isinstance(x, cls):
    t = type(x)
    if t in SYM_TYPES:
        tgt = {SBytes: bytes, SByteArray: bytearray, SStr: str, SInt: int, SBool: bool, SymSet: set}[t]
        if isinstance(cls, tuple):
            return any(m_isinstance(x, c) for c in cls)
        if isinstance(cls, type) and cls.__module__ == "symx.core":
            return isinstance(x, cls)
        try:
            return issubclass(tgt, cls)
        except TypeError:
            return isinstance(x, cls)
    return isinstance(x, cls)


def m_ord(x):
    if isinstance(x, SSeq):
        if len(x.b) != 1:
            raise TypeError("ord() expected a character")
        v = x.b[0]
        return v if isinstance(v, int) else SInt(v, x.elem_bits)
    return ord(x)


def m_chr(x):
    if isinstance(x, SInt):
        return SStr.mk((x.e,))
    return chr(x)


def m_hash(x):
    return hash(x)


def m_min(*a, **k):
    return min(*a, **k)


def m_max(*a, **k):
    return max(*a, **k)


def m_sorted(it, **k):
    return sorted(it, **k)


def m_frozenset(it=()):
    it = list(it)
    if _deepsym(it, 1):
        return SymSet(it)
    return frozenset(it)


def m_set(it=()):
    it = list(it)
    if _deepsym(it, 1):
        return SymSet(it)
    return set(it)


def m_tuple(it=()):
    return tuple(it)


def m_list(it=()):
    return list(it)


def m_memoryview(x):
    if isinstance(x, SSeq):
        return x
    return memoryview(x)


def m_int_from_bytes(data, byteorder="big", *, signed=False):
    if isinstance(data, SSeq):
        elems = data.b if byteorder == "big" else tuple(reversed(data.b))
        v = 0
        for x in elems:
            v = v * 256 + x
        return v if isinstance(v, int) else SInt(v, 8 * len(elems))
    return int.from_bytes(data, byteorder, signed=signed)


_STRUCT_SIZES = {"B": 1, "H": 2, "L": 4, "I": 4, "Q": 8}


def _struct_fmt(fmt):
    if isinstance(fmt, bytes):
        fmt = fmt.decode()
    order = "big"
    if fmt and fmt[0] in "!><=@":
        order = "little" if fmt[0] == "<" else "big"
        if fmt[0] in "=@":
            order = sys.byteorder
        fmt = fmt[1:]
    items = []
    num = ""
    for ch in fmt:
        if ch.isdigit():
            num += ch
            continue
        if ch not in _STRUCT_SIZES:
            return None
        items += [ch] * (int(num) if num else 1)
        num = ""
    return order, items


def m_struct_unpack_from(fmt, data, offset=0):
    f = _struct_fmt(fmt)
    if f is None or not isinstance(data, SSeq):
        return struct.unpack_from(fmt, _realise_arg(data), int(offset))
    order, items = f
    pos = int(offset)
    out = []
    for ch in items:
        n = _STRUCT_SIZES[ch]
        if pos + n > len(data.b):
            raise struct.error("unpack_from requires a buffer of sufficient size")
        out.append(m_int_from_bytes(SBytes(data.b[pos:pos + n]), order))
        pos += n
    return tuple(out)


def m_struct_unpack(fmt, data):
    f = _struct_fmt(fmt)
    if f is not None and isinstance(data, SSeq):
        if sum(_STRUCT_SIZES[c] for c in f[1]) != len(data.b):
            raise struct.error("unpack requires a buffer of the right size")
    return m_struct_unpack_from(fmt, data, 0)


def m_struct_pack(fmt, *vals):
    f = _struct_fmt(fmt)
    if f is None:
        return struct.pack(fmt, *[_realise_arg(v) for v in vals])
    order, items = f
    out = ()
    for ch, v in zip(items, vals):
        n = _STRUCT_SIZES[ch]
        if isinstance(v, SInt):
            out += v.to_bytes(n, order).b
        else:
            out += tuple(int(v).to_bytes(n, order))
    return SBytes.mk(out)


def _realise_arg(x):
    ctx = Ctx.cur
    if isinstance(x, SSeq):
        return x.realise("native call")
    if isinstance(x, SInt):
        return ctx.realise(x.e, "native call")
    if isinstance(x, SBool):
        return bool(x)
    if isinstance(x, list):
        return [_realise_arg(y) for y in x]
    if isinstance(x, tuple):
        return tuple(_realise_arg(y) for y in x)
    return x


FUNC_MODELS = {
    int: m_int, bool: m_bool, bytes: m_bytes, bytearray: m_bytearray, str: m_str, repr: m_repr,
    isinstance: m_isinstance, ord: m_ord, chr: m_chr, frozenset: m_frozenset, set: m_set,
    memoryview: m_memoryview,
    struct.unpack: m_struct_unpack, struct.unpack_from: m_struct_unpack_from, struct.pack: m_struct_pack,
}
for _name in ("fullmatch", "match", "search", "finditer", "findall", "sub", "split"):
    def _mk(_n):
        def f(pattern, *a, **k):
            # module-level signatures: f(pattern, string, flags=0); sub(pattern, repl, string,
            # count=0, flags=0); split(pattern, string, maxsplit=0, flags=0)
            flags = k.pop("flags", 0)
            a = list(a)
            if _n == "sub":
                if len(a) > 3:
                    flags = a.pop(3)
            elif _n == "split":
                if len(a) > 2:
                    flags = a.pop(2)
            elif len(a) > 1:
                flags = a.pop(1)
            if isinstance(pattern, SSeq):
                pattern = pattern.enumerate_concrete()
            pat = pattern if isinstance(pattern, re.Pattern) else re.compile(pattern, flags)
            return _rx_call(pat, _n, tuple(a), k)
        return f
    FUNC_MODELS[getattr(re, _name)] = _mk(_name)


def _rx_call(pat, name, a, k):
    # subject position differs for sub
    try:
        return rx.PATTERN_METHODS[name](pat, *a, **k)
    except rx.Unsupported as e:
        a2 = tuple(_realise_arg(x) for x in a)
        Ctx.cur.realised.append(f"regex unsupported: {e} in {pat.pattern!r}")
        return getattr(pat, name)(*a2, **k)


# methods of native str/bytes receivers that build on symbolic args are run on a
# proxy copy of the receiver
_SEQ_NATIVE = (str, bytes, bytearray)

# native container methods that only *store* their arguments
_STORE_OK = {
    (list, "append"), (list, "extend"), (list, "insert"), (list, "__setitem__"),
    (dict, "__setitem__"), (dict, "setdefault"), (dict, "update"),
}


# pure codec / OS libraries outside the instrumented tree: proxies are handed over as
# native values (exact when the proxy is fully concrete, otherwise realised + flagged)
_FOREIGN_CODECS = ("base64", "binascii", "zlib", "json", "urllib", "hashlib", "hmac", "quopri", "codecs",
                   "ipaddress", "socket", "os", "posixpath", "pathlib", "mimetypes", "email", "zoneinfo",
                   "datetime", "calendar", "brotli", "zstandard", "gzip", "secrets", "uuid")


def _is_foreign_codec(f):
    mod = getattr(f, "__module__", None) or getattr(getattr(f, "__self__", None), "__name__", "") or ""
    if not isinstance(mod, str):
        return False
    return mod.split(".")[0] in _FOREIGN_CODECS


def _foreign_arg(x):
    if isinstance(x, SSeq):
        if x.is_concrete():
            return x.concrete()
        return x.realise("foreign codec call")
    if isinstance(x, (SInt, SBool)):
        return _realise_arg(x)
    if isinstance(x, (list, tuple)) and _deepsym(x, 1):
        return type(x)(_foreign_arg(y) for y in x)
    return x


class SX:
    """runtime bound as `_sx_` in every instrumented module"""

    ncalls = 0
    entered = None  # set by runner per path (ctx.entered)

    @staticmethod
    def call(f, /, *a, **k):
        if f is bytearray and Ctx.cur is not None:
            # bytearrays created by the code under test are always proxies while a
            # symbolic path is active: native bytearrays cannot hold symbolic
            # elements written into them later (in-place masking, +=, slices)
            if not a:
                return SByteArray(())
            if len(a) == 1 and isinstance(a[0], (bytes, bytearray, SSeq)):
                return SByteArray(a[0])
        if not _anysym(a, k):
            if f is isinstance or not a or type(a[0]) not in (list, tuple) or not _deepsym(a[0], 1):
                return f(*a, **k) if k else f(*a)
        m = FUNC_MODELS.get(f) if getattr(f, "__hash__", None) else None
        if m is not None:
            return m(*a, **k)
        if _is_foreign_codec(f):
            return f(*[_foreign_arg(x) for x in a], **{n: _foreign_arg(v) for n, v in k.items()})
        if isinstance(f, _CFUNC_TYPES) or (isinstance(f, type) and f.__module__ == "builtins"):
            return SX._native_call(f, a, k)
        if isinstance(f, types.MethodType) and isinstance(f.__func__, _CFUNC_TYPES):
            return SX._native_call(f, a, k)
        # bound builtin methods (e.g. deque.append stored in an attribute)
        return f(*a, **k) if k else f(*a)

    @staticmethod
    def _native_call(f, a, k):
        name = getattr(f, "__name__", "")
        recv = getattr(f, "__self__", None)
        if recv is not None and not isinstance(recv, types.ModuleType) and name:
            return SX.callm(recv, name, *a, **k)
        try:
            return f(*a, **k)
        except TypeError:
            a2 = tuple(_realise_arg(x) for x in a)
            k2 = {n: _realise_arg(v) for n, v in k.items()}
            return f(*a2, **k2)

    @staticmethod
    def callm(o, name, /, *a, **k):
        to = type(o)
        if to in SYM_TYPES:
            m = getattr(o, name)
            return m(*a, **k) if k else m(*a)
        if name == "join" and to in _SEQ_NATIVE and a:
            parts = list(a[0])
            if _deepsym(parts, 1):
                return _to_sseq(o).join(parts)
            return o.join(parts)
        if not _anysym(a, k):
            if not (a and type(a[0]) in (tuple, list) and _deepsym(a[0], 1)):
                m = getattr(o, name)
                return m(*a, **k) if k else m(*a)
        # symbolic arguments to a method of a native object
        if to in _SEQ_NATIVE:
            m = getattr(_to_sseq(o), name)
            return m(*a, **k) if k else m(*a)
        if to is re.Pattern:
            return _rx_call(o, name, a, k)
        if to is struct.Struct:
            if name == "unpack_from":
                return m_struct_unpack_from(o.format, *a, **k)
            if name == "unpack":
                return m_struct_unpack(o.format, *a)
            if name == "pack":
                return m_struct_pack(o.format, *a)
        if o is int and name == "from_bytes":
            return m_int_from_bytes(*a, **k)
        if o is re:
            f = FUNC_MODELS.get(getattr(re, name, None))
            if f:
                return f(*a, **k)
        if o is struct:
            f = FUNC_MODELS.get(getattr(struct, name, None))
            if f:
                return f(*a, **k)
        if to is dict and name in ("get", "pop", "__getitem__", "__contains__") and type(a[0]) in SYM_TYPES:
            return _dict_lookup(o, name, a)
        m = getattr(o, name)
        if (isinstance(o, types.ModuleType) and o.__name__.split(".")[0] in _FOREIGN_CODECS) or _is_foreign_codec(m):
            return m(*[_foreign_arg(x) for x in a], **{n: _foreign_arg(v) for n, v in k.items()})
        if isinstance(m, _CFUNC_TYPES) and not isinstance(o, (list, dict, tuple, set, frozenset)) \
                and to.__module__ not in ("collections", "builtins", "_asyncio", "asyncio.futures", "_collections"):
            try:
                return m(*a, **k)
            except TypeError:
                a2 = tuple(_realise_arg(x) for x in a)
                k2 = {n: _realise_arg(v) for n, v in k.items()}
                return m(*a2, **k2)
        return m(*a, **k) if k else m(*a)

    @staticmethod
    def contains(x, c):
        tc = type(c)
        if tc in SYM_TYPES:
            return x in c
        if type(x) in SYM_TYPES:
            if tc in (set, frozenset, tuple, list):
                return Ctx.cur.fork(disj([sym_eq(x, v) for v in c]))
            if tc is dict or isinstance(c, (type({}.keys()), type({}.values()))):
                return Ctx.cur.fork(disj([sym_eq(x, v) for v in c]))
            if tc in _SEQ_NATIVE:
                return x in _to_sseq(c)
        elif tc in (tuple, list) and _deepsym(c, 1):
            return Ctx.cur.fork(disj([sym_eq(x, v) for v in c]))
        return x in c

    @staticmethod
    def mkset(*elts):
        for x in elts:
            if type(x) in SYM_TYPES:
                return SymSet(elts)
        return set(elts)

    @staticmethod
    def setcomp(gen):
        elts = list(gen)
        for x in elts:
            if type(x) in SYM_TYPES:
                return SymSet(elts)
        return set(elts)

    @staticmethod
    def fstr(*parts):
        """parts: str literals or (value, conversion, spec) triples"""
        sym = False
        for p in parts:
            if type(p) is tuple and (type(p[0]) in SYM_TYPES or type(p[2]) in SYM_TYPES):
                sym = True
                break
        if not sym:
            out = []
            for p in parts:
                if type(p) is tuple:
                    v, conv, spec = p
                    if conv == 115:
                        v = str(v)
                    elif conv == 114:
                        v = repr(v)
                    elif conv == 97:
                        v = ascii(v)
                    out.append(format(v, spec))
                else:
                    out.append(p)
            return "".join(out)
        acc = ()
        for p in parts:
            if type(p) is tuple:
                v, conv, spec = p
                if type(v) in SYM_TYPES:
                    if isinstance(v, SStr) and conv in (-1, 115) and not spec:
                        acc += v.b
                    elif isinstance(v, SInt) and conv in (-1, 115) and not spec:
                        acc += SStr(m_str(v)).b
                    else:
                        acc += tuple(map(ord, OPAQUE))
                else:
                    if conv == 115:
                        v = str(v)
                    elif conv == 114:
                        v = repr(v)
                    elif conv == 97:
                        v = ascii(v)
                    acc += tuple(map(ord, format(v, spec if isinstance(spec, str) else "")))
            else:
                acc += tuple(map(ord, p))
        return SStr.mk(acc)

    @staticmethod
    def add(a, b):
        return a + b

    @staticmethod
    def mod(a, b):
        ta = type(a)
        if ta in (str, bytes) and (type(b) in SYM_TYPES or (type(b) is tuple and _deepsym(b, 1))):
            return _percent_format(a, b)
        return a % b

    @staticmethod
    def enter(q):
        c = Ctx.cur
        if c is not None:
            c.entered.add(q)
            c.steps += 1
            if c.steps > c.step_budget:
                raise core.StepBudget()


def _dict_lookup(d, name, a):
    ctx = Ctx.cur
    key = a[0]
    for kk in list(d.keys()):
        if ctx.fork(sym_eq(key, kk)):
            if name == "__contains__":
                return True
            if name == "pop":
                return d.pop(kk)
            return d[kk]
    if name == "__contains__":
        return False
    if name == "__getitem__" or (name == "pop" and len(a) < 2):
        raise KeyError(OPAQUE)
    return a[1] if len(a) > 1 else None


_PCT = re.compile(r"%(?:\((\w+)\))?([#0\- +]*)(\d*)(?:\.(\d+))?([sdrxi%a])")


def _percent_format(fmt, args):
    isb = isinstance(fmt, bytes)
    f = fmt.decode("latin1") if isb else fmt
    if not isinstance(args, tuple):
        args = (args,)
    cls = SBytes if isb else SStr
    out = ()
    pos = 0
    ai = 0
    for mo in _PCT.finditer(f):
        out += tuple(map(ord, f[pos:mo.start()]))
        pos = mo.end()
        conv = mo.group(5)
        if conv == "%":
            out += (37,)
            continue
        v = args[ai]
        ai += 1
        plain = not (mo.group(2) or mo.group(3) or mo.group(4))
        if type(v) in SYM_TYPES:
            if conv == "s" and plain and isinstance(v, SSeq) and isinstance(v, SStr) != isb:
                out += v.b
            elif conv in "sdi" and plain and isinstance(v, SInt):
                out += SStr(m_str(v)).b
            else:
                out += tuple(map(ord, OPAQUE))
        else:
            piece = (mo.group(0).encode("latin1") % (v,)).decode("latin1") if isb else mo.group(0) % (v,)
            out += tuple(map(ord, piece))
    out += tuple(map(ord, f[pos:]))
    return cls.mk(out)


# ------------------------------------------------------------------- AST pass
def _attr(name):
    return ast.Attribute(value=ast.Name("_sx_", ast.Load()), attr=name, ctx=ast.Load())


class T(ast.NodeTransformer):
    def __init__(self, modname):
        self.modname = modname
        self.stack = []

    def visit_Call(self, node):
        self.generic_visit(node)
        f = node.func
        if isinstance(f, ast.Name) and f.id in SKIP_FUNCS:
            return node
        if (isinstance(f, ast.Attribute) and isinstance(f.value, ast.Call)
                and isinstance(f.value.func, ast.Name) and f.value.func.id == "super"):
            return node
        if isinstance(f, ast.Attribute):
            if f.attr.startswith("__") and not f.attr.endswith("__"):
                return node  # name mangling
            new = ast.Call(func=_attr("callm"), args=[f.value, ast.Constant(f.attr)] + node.args,
                           keywords=node.keywords)
        else:
            new = ast.Call(func=_attr("call"), args=[f] + node.args, keywords=node.keywords)
        return ast.copy_location(new, node)

    def visit_Compare(self, node):
        self.generic_visit(node)
        if len(node.ops) == 1 and isinstance(node.ops[0], (ast.In, ast.NotIn)):
            c = ast.Call(func=_attr("contains"), args=[node.left, node.comparators[0]], keywords=[])
            if isinstance(node.ops[0], ast.NotIn):
                c = ast.UnaryOp(op=ast.Not(), operand=c)
            return ast.copy_location(c, node)
        return node

    def visit_Set(self, node):
        self.generic_visit(node)
        if any(isinstance(e, ast.Starred) for e in node.elts):
            return node
        return ast.copy_location(ast.Call(func=_attr("mkset"), args=node.elts, keywords=[]), node)

    def visit_SetComp(self, node):
        self.generic_visit(node)
        gen = ast.GeneratorExp(elt=node.elt, generators=node.generators)
        return ast.copy_location(ast.Call(func=_attr("setcomp"), args=[gen], keywords=[]), node)

    def visit_JoinedStr(self, node):
        self.generic_visit(node)
        args = []
        for v in node.values:
            if isinstance(v, ast.Constant):
                args.append(v)
            elif isinstance(v, ast.FormattedValue):
                spec = v.format_spec if v.format_spec is not None else ast.Constant("")
                if isinstance(spec, ast.JoinedStr):
                    spec = self.visit_JoinedStr(spec) if any(
                        isinstance(x, ast.FormattedValue) for x in spec.values) else ast.Constant(
                        "".join(x.value for x in spec.values))
                args.append(ast.Tuple(elts=[v.value, ast.Constant(v.conversion), spec], ctx=ast.Load()))
            else:
                return node
        return ast.copy_location(ast.Call(func=_attr("fstr"), args=args, keywords=[]), node)

    def visit_BinOp(self, node):
        self.generic_visit(node)
        if isinstance(node.op, ast.Mod):
            return ast.copy_location(ast.Call(func=_attr("mod"), args=[node.left, node.right], keywords=[]), node)
        return node

    def _fn(self, node):
        self.stack.append(node.name)
        node.body = [self.visit(s) for s in node.body]
        q = self.modname + ":" + ".".join(self.stack)
        probe = ast.Expr(ast.Call(func=_attr("enter"), args=[ast.Constant(q)], keywords=[]))
        i = 1 if (node.body and isinstance(node.body[0], ast.Expr)
                  and isinstance(getattr(node.body[0], "value", None), ast.Constant)
                  and isinstance(node.body[0].value.value, str)) else 0
        node.body.insert(i, probe)
        self.stack.pop()
        return node

    visit_FunctionDef = _fn
    visit_AsyncFunctionDef = _fn

    def visit_Lambda(self, node):
        self.generic_visit(node)
        return node

    def visit_ClassDef(self, node):
        self.stack.append(node.name)
        node.body = [self.visit(s) if isinstance(s, (ast.FunctionDef, ast.AsyncFunctionDef, ast.ClassDef)) else s
                     for s in node.body]
        self.stack.pop()
        return node

    def visit_Module(self, node):
        node.body = [self.visit(s) if isinstance(s, (ast.FunctionDef, ast.AsyncFunctionDef, ast.ClassDef)) else s
                     for s in node.body]
        return node


class Loader(importlib.machinery.SourceFileLoader):
    def source_to_code(self, data, path, *, _optimize=-1):
        tree = ast.parse(data, path)
        tree = T(self.name).visit(tree)
        ast.fix_missing_locations(tree)
        return compile(tree, path, "exec", dont_inherit=True, optimize=_optimize)

    def exec_module(self, module):
        module.__dict__["_sx_"] = SX
        super().exec_module(module)

    def get_code(self, fullname):
        path = self.get_filename(fullname)
        return self.source_to_code(self.get_data(path), path)


class Finder(importlib.abc.MetaPathFinder):
    def __init__(self, roots):
        # roots: {top-level package/module name: directory containing it}
        self.roots = roots

    def find_spec(self, fullname, path, target=None):
        top = fullname.split(".")[0]
        root = self.roots.get(top)
        if root is None:
            return None
        parts = fullname.split(".")
        base = os.path.join(root, *parts)
        if os.path.isdir(base):
            fn = os.path.join(base, "__init__.py")
            if os.path.exists(fn):
                return importlib.util.spec_from_file_location(
                    fullname, fn, loader=Loader(fullname, fn), submodule_search_locations=[base])
        fn = base + ".py"
        if os.path.exists(fn):
            return importlib.util.spec_from_file_location(fullname, fn, loader=Loader(fullname, fn))
        return None


_installed = False


def install(extra_roots=None):
    """instrument aiohttp.* from REPO (and optional extra top-level modules)"""
    global _installed
    if _installed:
        return
    roots = {"aiohttp": REPO}
    roots.update(extra_roots or {})
    for name in list(sys.modules):
        if name.split(".")[0] in roots:
            raise RuntimeError(f"{name} imported before symx hook installation")
    sys.meta_path.insert(0, Finder(roots))
    os.environ.setdefault("AIOHTTP_NO_EXTENSIONS", "1")
    _installed = True


def assert_repo_tree():
    import aiohttp

    f = os.path.realpath(aiohttp.__file__)
    if not f.startswith(os.path.realpath(REPO) + os.sep):
        raise RuntimeError(f"aiohttp imported from {f}, expected under {REPO}")
    import glob

    so = glob.glob(os.path.join(REPO, "aiohttp", "**", "*.so"), recursive=True)
    if so:
        raise RuntimeError(f"compiled extensions present in {REPO}: {so}")

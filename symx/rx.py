"""Exact model of `re` on symbolic sequences, driven by the sre parse tree of the
*live* compiled pattern object.

* boolean questions (does it match [i:j]?) -> one formula by dynamic programming
  over the concrete positions; decided with a single fork;
* positions / groups -> a faithful backtracking matcher (same priority order as
  sre) whose character tests fork.
Single-character nodes are never re-implemented: the node is compiled natively
(re._compiler) and evaluated on every member of the element universe, giving an
exact membership set under the pattern's flags.
"""
from __future__ import annotations

import re
import re._compiler as scomp
import re._constants as sc
import re._parser as sp

import z3

from .core import (BYTE_UNIVERSE, UNIVERSE, Ctx, SBytes, SSeq, SStr, conj, disj,
                   in_ranges, neg, ranges_of)

MAXREPEAT = sc.MAXREPEAT
_CHAR_OPS = (sc.LITERAL, sc.NOT_LITERAL, sc.ANY, sc.IN)


class Unsupported(Exception):
    pass


class RX:
    _cache: dict = {}

    def __init__(self, pat: re.Pattern):
        self.pat = pat
        self.is_bytes = isinstance(pat.pattern, bytes)
        src = pat.pattern.decode("latin1") if self.is_bytes else pat.pattern
        flags = pat.flags
        if self.is_bytes:
            # parse as str source but keep bytes semantics (ASCII categories)
            tree = sp.parse(pat.pattern, flags & ~re.UNICODE)
        else:
            tree = sp.parse(src, flags)
        self.tree = tree
        self.flags = tree.state.flags | flags
        self.ngroups = pat.groups
        self.groupindex = dict(pat.groupindex)
        self.universe = BYTE_UNIVERSE if self.is_bytes else UNIVERSE
        self._charsets: dict = {}
        self._check(tree)

    @classmethod
    def of(cls, pat):
        r = cls._cache.get(id(pat))
        if r is None or r.pat is not pat:
            r = cls(pat)
            cls._cache[id(pat)] = r
        return r

    def _check(self, items):
        for op, av in items:
            if op in _CHAR_OPS or op is sc.AT:
                continue
            if op is sc.SUBPATTERN:
                g, add, dele, sub = av
                if add or dele:
                    raise Unsupported("inline flags")
                self._check(sub)
            elif op is sc.BRANCH:
                for alt in av[1]:
                    self._check(alt)
            elif op in (sc.MAX_REPEAT, sc.MIN_REPEAT):
                self._check(av[2])
            elif op in (sc.ASSERT, sc.ASSERT_NOT):
                self._check(av[1])
            else:
                raise Unsupported(str(op))

    # ------------------------------------------------------------- char nodes
    def charset(self, node):
        key = id(node)
        r = self._charsets.get(key)
        if r is None:
            st = sp.State()
            st.flags = self.flags
            st.str = ""
            subp = sp.SubPattern(st, [node])
            cp = scomp.compile(subp, self.flags & ~re.DEBUG)
            if self.is_bytes:
                ok = [c for c in self.universe if cp.fullmatch(bytes([c]))]
            else:
                ok = [c for c in self.universe if cp.fullmatch(chr(c))]
            r = (ranges_of(ok), node)
            self._charsets[key] = r
        return r[0]

    def char(self, node, x):
        return in_ranges(x, self.charset(node))


class _M:
    """one matching problem: pattern x sequence"""

    def __init__(self, rx: RX, seq: SSeq):
        self.rx = rx
        self.s = seq.b
        self.n = len(seq.b)
        self.memo = {}
        self.wmemo = {}

    # widths
    def width(self, items, k=0):
        key = (id(items), k)
        r = self.wmemo.get(key)
        if r is None:
            lo = hi = 0
            for op, av in list(items)[k:]:
                a, b = self._nwidth(op, av)
                lo += a
                hi = min(hi + b, MAXREPEAT)
            r = (lo, hi)
            self.wmemo[key] = r
        return r

    def _nwidth(self, op, av):
        if op in _CHAR_OPS:
            return 1, 1
        if op in (sc.AT, sc.ASSERT, sc.ASSERT_NOT):
            return 0, 0
        if op is sc.SUBPATTERN:
            return self.width(av[3])
        if op is sc.BRANCH:
            ws = [self.width(a) for a in av[1]]
            return min(w[0] for w in ws), max(w[1] for w in ws)
        if op in (sc.MAX_REPEAT, sc.MIN_REPEAT):
            lo, hi, sub = av
            a, b = self.width(sub)
            return a * lo, (MAXREPEAT if hi is MAXREPEAT or b >= MAXREPEAT else b * hi)
        raise Unsupported(str(op))

    # zero-width tests
    def at(self, av, i):
        s, n = self.s, self.n
        if av in (sc.AT_BEGINNING_STRING,):
            return i == 0
        if av is sc.AT_BEGINNING:
            if self.rx.flags & re.MULTILINE:
                return True if i == 0 else (s[i - 1] == 10)
            return i == 0
        if av is sc.AT_END_STRING:
            return i == n
        if av is sc.AT_END:
            if self.rx.flags & re.MULTILINE:
                return True if i == n else (s[i] == 10)
            if i == n:
                return True
            if i == n - 1:
                return s[i] == 10
            return False
        if av in (sc.AT_BOUNDARY, sc.AT_NON_BOUNDARY):
            wn = ("w", id(self.rx))
            word = self._word
            a = word(s[i - 1]) if i > 0 else False
            b = word(s[i]) if i < n else False
            # boundary = a xor b
            x = disj([conj([a, neg(b)]), conj([neg(a), b])])
            return x if av is sc.AT_BOUNDARY else neg(x)
        raise Unsupported(str(av))

    def _word(self, x):
        node = (sc.IN, [(sc.CATEGORY, sc.CATEGORY_WORD)])
        key = "word"
        cs = self.rx._charsets.get(key)
        if cs is None:
            st = sp.State()
            st.flags = self.rx.flags
            st.str = ""
            cp = scomp.compile(sp.SubPattern(st, [node]), self.rx.flags)
            uni = self.rx.universe
            ok = [c for c in uni if cp.fullmatch(bytes([c]) if self.rx.is_bytes else chr(c))]
            cs = ranges_of(ok)
            self.rx._charsets[key] = cs
        return in_ranges(x, cs)

    # ------------------------------------------------------------------- DP
    def seq(self, items, k, i, j):
        """formula: items[k:] matches s[i:j] exactly"""
        key = (id(items), k, i, j)
        r = self.memo.get(key)
        if r is not None:
            return r
        r = self._seq(items, k, i, j)
        self.memo[key] = r
        return r

    def _seq(self, items, k, i, j):
        if k == len(items):
            return i == j
        lo, hi = self.width(items, k)
        if j - i < lo or j - i > hi:
            return False
        op, av = items[k]
        if op in _CHAR_OPS:
            if i >= j:
                return False
            c = self.rx.char(items[k], self.s[i])
            if c is False:
                return False
            return conj([c, self.seq(items, k + 1, i + 1, j)])
        if op is sc.AT:
            c = self.at(av, i)
            if c is False:
                return False
            return conj([c, self.seq(items, k + 1, i, j)])
        if op in (sc.ASSERT, sc.ASSERT_NOT):
            direction, sub = av
            if direction > 0:
                c = disj([self.seq(sub, 0, i, p) for p in range(i, self.n + 1)])
            else:
                c = disj([self.seq(sub, 0, p, i) for p in range(0, i + 1)])
            if op is sc.ASSERT_NOT:
                c = neg(c)
            if c is False:
                return False
            return conj([c, self.seq(items, k + 1, i, j)])
        # variable width node
        nlo, nhi = self._nwidth(op, av)
        rlo, rhi = self.width(items, k + 1)
        alts = []
        for p in range(i + nlo, min(j, i + nhi) + 1):
            if j - p < rlo or j - p > rhi:
                continue
            a = self.node(items[k], i, p)
            if a is False:
                continue
            b = self.seq(items, k + 1, p, j)
            if b is False:
                continue
            alts.append(conj([a, b]))
        return disj(alts)

    def node(self, nd, i, j):
        key = (id(nd), "n", i, j)
        r = self.memo.get(key)
        if r is not None:
            return r
        op, av = nd
        if op is sc.SUBPATTERN:
            r = self.seq(av[3], 0, i, j)
        elif op is sc.BRANCH:
            r = disj([self.seq(a, 0, i, j) for a in av[1]])
        elif op in (sc.MAX_REPEAT, sc.MIN_REPEAT):
            lo, hi, sub = av
            r = self.rep(sub, lo, hi, i, j)
        else:
            raise Unsupported(str(op))
        self.memo[key] = r
        return r

    def rep(self, sub, lo, hi, i, j):
        key = (id(sub), "r", lo, hi, i, j)
        r = self.memo.get(key)
        if r is not None:
            return r
        slo, shi = self.width(sub)
        if len(sub) == 1 and sub[0][0] in _CHAR_OPS:
            L = j - i
            if L < lo or (hi is not MAXREPEAT and L > hi):
                r = False
            else:
                r = conj([self.rx.char(sub[0], self.s[p]) for p in range(i, j)])
        else:
            alts = []
            if lo <= 0 and i == j:
                alts.append(True)
            if hi is MAXREPEAT or hi > 0:
                nhi = hi if hi is MAXREPEAT else hi - 1
                # non-empty iteration
                for p in range(i + max(slo, 1), min(j, i + shi) + 1):
                    a = self.seq(sub, 0, i, p)
                    if a is False:
                        continue
                    b = self.rep(sub, max(lo - 1, 0), nhi, p, j)
                    if b is False:
                        continue
                    alts.append(conj([a, b]))
                # empty iterations can only help to satisfy lo
                if slo == 0 and lo > 0 and i == j:
                    alts.append(self.seq(sub, 0, i, i))
            r = disj(alts)
        self.memo[key] = r
        return r

    # ---------------------------------------------------------- backtracking
    def bt(self, items, k, pos, groups, cont):
        ctx = Ctx.cur
        while True:
            if k == len(items):
                return cont(pos, groups)
            op, av = items[k]
            if op in _CHAR_OPS:
                if pos < self.n and ctx.fork(self.rx.char(items[k], self.s[pos])):
                    pos += 1
                    k += 1
                    continue
                return False
            if op is sc.AT:
                if ctx.fork(self.at(av, pos)):
                    k += 1
                    continue
                return False
            if op in (sc.ASSERT, sc.ASSERT_NOT):
                direction, sub = av
                if direction > 0:
                    c = disj([self.seq(sub, 0, pos, p) for p in range(pos, self.n + 1)])
                else:
                    c = disj([self.seq(sub, 0, p, pos) for p in range(0, pos + 1)])
                if op is sc.ASSERT_NOT:
                    c = neg(c)
                if ctx.fork(c):
                    k += 1
                    continue
                return False
            break
        nxt = lambda p, gr: self.bt(items, k + 1, p, gr, cont)  # noqa: E731
        if op is sc.SUBPATTERN:
            g = av[0]
            sub = av[3]
            start = pos

            def after(p, gr):
                if g is not None:
                    gr = dict(gr)
                    gr[g] = (start, p)
                return nxt(p, gr)

            return self.bt(sub, 0, pos, groups, after)
        if op is sc.BRANCH:
            for alt in av[1]:
                if self.bt(alt, 0, pos, groups, nxt):
                    return True
            return False
        if op in (sc.MAX_REPEAT, sc.MIN_REPEAT):
            lo, hi, sub = av
            greedy = op is sc.MAX_REPEAT

            def more(count, p, gr):
                if hi is not MAXREPEAT and count >= hi:
                    return False
                return self.bt(
                    sub, 0, p, gr,
                    lambda p2, gr2: (p2 != p or count < lo) and rep(count + 1, p2, gr2),
                )

            def rep(count, p, gr):
                if greedy:
                    if more(count, p, gr):
                        return True
                    return count >= lo and nxt(p, gr)
                if count >= lo and nxt(p, gr):
                    return True
                return more(count, p, gr)

            return rep(0, pos, groups)
        raise Unsupported(str(op))

    def run_bt(self, start, must_end=None):
        """priority-first match from `start`; returns (end, groups) or None"""
        res = []

        def fin(p, gr):
            if must_end is not None and p != must_end:
                return False
            res.append((p, gr))
            return True

        if self.bt(self.rx.tree, 0, start, {}, fin):
            return res[0]
        return None

    def prefix_formula(self, start, full=False):
        if full:
            return self.seq(self.rx.tree, 0, start, self.n)
        lo, hi = self.width(self.rx.tree)
        return disj([self.seq(self.rx.tree, 0, start, j) for j in range(start + lo, min(self.n, start + hi) + 1)])


class SMatch:
    """re.Match look-alike over a symbolic subject"""

    def __init__(self, m: _M, subject, start, end_known=None):
        self._m = m
        self.string = subject
        self.re = m.rx.pat
        self._start = start
        self._end = end_known
        self._groups = None
        self.pos = 0
        self.endpos = len(subject)

    def _solve(self):
        if self._groups is None:
            r = self._m.run_bt(self._start, self._end)
            if r is None:
                raise AssertionError("symx.rx: DP formula and backtracking matcher disagree")
            self._end, self._groups = r
            self._groups = dict(self._groups)
            self._groups[0] = (self._start, self._end)

    def _span(self, g):
        if isinstance(g, str):
            g = self._m.rx.groupindex[g]
        if g != 0 or self._end is None:
            self._solve()
            if g > self._m.rx.ngroups:
                raise IndexError("no such group")
            return self._groups.get(g)
        return (self._start, self._end)

    def group(self, *gs):
        if not gs:
            gs = (0,)
        out = []
        for g in gs:
            sp_ = self._span(g)
            out.append(None if sp_ is None else self.string[sp_[0]:sp_[1]])
        return out[0] if len(out) == 1 else tuple(out)

    __getitem__ = group

    def groups(self, default=None):
        return tuple(
            (default if self._span(g) is None else self.string[self._span(g)[0]:self._span(g)[1]])
            for g in range(1, self._m.rx.ngroups + 1)
        )

    def groupdict(self, default=None):
        return {
            name: (default if self._span(g) is None else self.string[self._span(g)[0]:self._span(g)[1]])
            for name, g in self._m.rx.groupindex.items()
        }

    def start(self, g=0):
        s = self._span(g)
        return -1 if s is None else s[0]

    def end(self, g=0):
        s = self._span(g)
        return -1 if s is None else s[1]

    def span(self, g=0):
        s = self._span(g)
        return (-1, -1) if s is None else s

    @property
    def lastindex(self):
        self._solve()
        gs = [g for g in self._groups if g]
        return max(gs) if gs else None

    def __bool__(self):
        return True


def _subject(rx, s):
    if isinstance(s, SSeq):
        return s
    return SBytes(s) if rx.is_bytes else SStr(s)


def _nativeize(s):
    return s


def fullmatch(pat, s, pos=0, endpos=None):
    rx = RX.of(pat)
    subj = _subject(rx, s)
    m = _M(rx, subj)
    if Ctx.cur.fork(m.prefix_formula(0, full=True)):
        return SMatch(m, s if isinstance(s, SSeq) else subj, 0, len(subj.b))
    return None


def match(pat, s, pos=0, endpos=None):
    rx = RX.of(pat)
    subj = _subject(rx, s)
    m = _M(rx, subj)
    pos = int(pos)
    if Ctx.cur.fork(m.prefix_formula(pos)):
        return SMatch(m, subj, pos)
    return None


def search(pat, s, pos=0, endpos=None):
    rx = RX.of(pat)
    subj = _subject(rx, s)
    m = _M(rx, subj)
    ctx = Ctx.cur
    tree = rx.tree
    # fast path: single char node -> one disjunction decides existence
    if len(tree) == 1 and tree[0][0] in _CHAR_OPS:
        if not ctx.fork(disj([rx.char(tree[0], x) for x in subj.b[int(pos):]])):
            return None
    for st in range(int(pos), len(subj.b) + 1):
        if ctx.fork(m.prefix_formula(st)):
            return SMatch(m, subj, st)
    return None


def finditer(pat, s, pos=0, endpos=None):
    rx = RX.of(pat)
    subj = _subject(rx, s)
    m = _M(rx, subj)
    ctx = Ctx.cur
    st = int(pos)
    n = len(subj.b)
    out = []
    while st <= n:
        found = None
        for q in range(st, n + 1):
            if ctx.fork(m.prefix_formula(q)):
                found = q
                break
        if found is None:
            break
        mo = SMatch(m, subj, found)
        mo._solve()
        out.append(mo)
        st = mo._end if mo._end > found else found + 1
        # sre: an empty match is not allowed adjacent to the previous match end
        # (handled approximately: patterns used by aiohttp never produce it)
    return iter(out)


def findall(pat, s, pos=0, endpos=None):
    rx = RX.of(pat)
    out = []
    for mo in finditer(pat, s, pos):
        if rx.ngroups == 0:
            out.append(mo.group(0))
        elif rx.ngroups == 1:
            out.append(mo.group(1) if mo.group(1) is not None else subj_empty(rx))
        else:
            out.append(tuple(g if g is not None else subj_empty(rx) for g in mo.groups()))
    return out


def subj_empty(rx):
    return b"" if rx.is_bytes else ""


def sub(pat, repl, s, count=0):
    rx = RX.of(pat)
    subj = _subject(rx, s)
    cls = SBytes if rx.is_bytes else SStr
    out = ()
    last = 0
    k = 0
    for mo in finditer(pat, subj):
        if count and k >= count:
            break
        a, b = mo.span()
        out += subj.b[last:a]
        if callable(repl):
            r = repl(mo)
        else:
            r = _expand(rx, repl, mo)
        out += cls(r).b if not isinstance(r, SSeq) else r.b
        last = b
        k += 1
    out += subj.b[last:]
    return cls.mk(out)


def _expand(rx, repl, mo):
    # supports literal text and \1..\9 / \g<name>
    if isinstance(repl, SSeq):
        raise Unsupported("symbolic replacement template")
    esc = b"\\" if isinstance(repl, bytes) else "\\"
    if esc not in repl:
        return repl
    tmpl = sp.parse_template(repl, rx.pat)
    # python 3.12: parse_template returns list of literals / group indices
    cls = SBytes if rx.is_bytes else SStr
    out = ()
    for part in tmpl:
        if isinstance(part, int):
            g = mo.group(part)
            if g is not None:
                out += cls(g).b
        elif part is not None:
            out += cls(part).b
    return cls.mk(out)


def split(pat, s, maxsplit=0):
    rx = RX.of(pat)
    subj = _subject(rx, s)
    cls = SBytes if rx.is_bytes else SStr
    out = []
    last = 0
    k = 0
    for mo in finditer(pat, subj):
        if maxsplit and k >= maxsplit:
            break
        a, b = mo.span()
        if a == b:
            continue
        out.append(cls.mk(subj.b[last:a]))
        out.extend(mo.groups())
        last = b
        k += 1
    out.append(cls.mk(subj.b[last:]))
    return out


PATTERN_METHODS = {
    "fullmatch": fullmatch, "match": match, "search": search, "finditer": finditer,
    "findall": findall, "sub": sub, "split": split,
}

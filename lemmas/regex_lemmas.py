"""L-regex: language lemmas with no length bound.

A compiled pattern object is read from the *imported module of the current tree*,
its sre parse tree is translated to a z3 regular expression over the full code
point range (flags honoured), and equivalence / inclusion with a reference
language written from the RFC ABNF is decided by z3 (x in L_impl XOR x in L_ref
unsat) and re-decided by cvc5 on the SMT-LIB dump.
"""
from __future__ import annotations

import re
import re._constants as sc
import re._parser as sp
import time
import unicodedata

import z3

MAXCP = 0x2FFFF  # z3's character sort


def _ranges(cps):
    out = []
    for c in sorted(cps):
        if out and out[-1][1] == c - 1:
            out[-1][1] = c
        else:
            out.append([c, c])
    return out


_ND = None


def _unicode_digits():
    global _ND
    if _ND is None:
        _ND = _ranges(c for c in range(0x110000) if c <= MAXCP and unicodedata.category(chr(c)) == "Nd")
    return _ND


def _rng(a, b):
    return z3.Range(z3.StringVal(chr(a)), z3.StringVal(chr(b))) if a != b else z3.Re(z3.StringVal(chr(a)))


def _union(parts):
    if not parts:
        return z3.Empty(z3.ReSort(z3.StringSort()))
    return z3.Union(*parts) if len(parts) > 1 else parts[0]


ALLCHAR = z3.AllChar(z3.ReSort(z3.StringSort()))


def _category(av, flags, is_bytes):
    ascii_only = is_bytes or (flags & re.ASCII)
    if av is sc.CATEGORY_DIGIT:
        if ascii_only:
            return [_rng(48, 57)]
        return [_rng(a, b) for a, b in _unicode_digits()]
    if av is sc.CATEGORY_SPACE and ascii_only:
        return [_rng(9, 13), _rng(32, 32)]
    if av is sc.CATEGORY_WORD and ascii_only:
        return [_rng(48, 57), _rng(65, 90), _rng(97, 122), _rng(95, 95)]
    raise NotImplementedError(f"category {av} flags {flags}")


def _cls(items, flags, is_bytes):
    alts = []
    negate = False
    for op, av in items:
        if op is sc.NEGATE:
            negate = True
        elif op is sc.LITERAL:
            alts.append(_rng(av, av))
        elif op is sc.RANGE:
            alts.append(_rng(av[0], av[1]))
        elif op is sc.CATEGORY:
            alts += _category(av, flags, is_bytes)
        else:
            raise NotImplementedError(str(op))
    r = _union(alts)
    if negate:
        top = _rng(0, 255) if is_bytes else ALLCHAR
        r = z3.Intersect(top, z3.Complement(r))
    return r


def tr(parsed, flags, is_bytes=False):
    parts = []
    for op, av in parsed:
        if op is sc.LITERAL:
            parts.append(_rng(av, av))
        elif op is sc.NOT_LITERAL:
            parts.append(z3.Intersect(_rng(0, 255) if is_bytes else ALLCHAR, z3.Complement(_rng(av, av))))
        elif op is sc.ANY:
            parts.append(z3.Intersect(ALLCHAR, z3.Complement(_rng(10, 10))) if not flags & re.DOTALL else ALLCHAR)
        elif op is sc.IN:
            parts.append(_cls(av, flags, is_bytes))
        elif op in (sc.MAX_REPEAT, sc.MIN_REPEAT):
            lo, hi, sub = av
            s = tr(sub, flags, is_bytes)
            if hi is sc.MAXREPEAT:
                if lo == 0:
                    parts.append(z3.Star(s))
                elif lo == 1:
                    parts.append(z3.Plus(s))
                else:
                    parts.append(z3.Concat(z3.Loop(s, lo, lo), z3.Star(s)))
            else:
                parts.append(z3.Loop(s, lo, hi))
        elif op is sc.SUBPATTERN:
            parts.append(tr(av[3], flags, is_bytes))
        elif op is sc.BRANCH:
            parts.append(_union([tr(a, flags, is_bytes) for a in av[1]]))
        elif op is sc.AT and av in (sc.AT_BEGINNING, sc.AT_BEGINNING_STRING, sc.AT_END_STRING):
            continue  # only used at the ends of fullmatch-style patterns here
        else:
            raise NotImplementedError(str(op))
    if not parts:
        return z3.Re(z3.StringVal(""))
    return z3.Concat(*parts) if len(parts) > 1 else parts[0]


def to_z3(pat):
    is_bytes = isinstance(pat.pattern, bytes)
    tree = sp.parse(pat.pattern, pat.flags & ~re.UNICODE if is_bytes else pat.flags)
    return tr(tree, pat.flags, is_bytes)


def chars(s):
    return _union([_rng(ord(c), ord(c)) for c in s])


# ---- reference languages (RFC 9110 / 9112 ABNF)
def ref_tchar():
    return z3.Union(_rng(48, 57), _rng(65, 90), _rng(97, 122), chars("!#$%&'*+-.^_`|~"))


def ref_token():
    return z3.Plus(ref_tchar())


def ref_digits():
    return z3.Plus(_rng(48, 57))


def ref_hexdigits():
    return z3.Plus(z3.Union(_rng(48, 57), _rng(65, 70), _rng(97, 102)))


def ref_version():
    return z3.Concat(z3.Re(z3.StringVal("HTTP/")), _rng(48, 57), z3.Re(z3.StringVal(".")), _rng(48, 57))


def ref_ctl_except_htab():
    return z3.Union(_rng(0, 8), _rng(10, 31), _rng(127, 127))


def _cvc5_check(smt2, timeout_ms=10000):
    try:
        import cvc5
    except Exception:
        return None
    try:
        slv = cvc5.Solver()
        slv.setOption("strings-exp", "true")
        slv.setOption("tlimit-per", str(timeout_ms))
        parser = cvc5.InputParser(slv)
        parser.setStringInput(cvc5.InputLanguage.SMT_LIB_2_6, smt2, "lemma")
        sm = parser.getSymbolManager()
        res = None
        while True:
            cmd = parser.nextCommand()
            if cmd.isNull():
                break
            out = cmd.invoke(slv, sm)
            if out.strip() in ("sat", "unsat", "unknown"):
                res = out.strip()
        return res
    except Exception as e:  # noqa: BLE001
        return f"error:{type(e).__name__}"


def decide(name, formula_builder, key=None, timeout_ms=60000, second=True):
    """formula_builder(x) -> z3 Bool that must be UNSAT"""
    x = z3.String("x")
    s = z3.Solver()
    s.set("timeout", timeout_ms)
    f = formula_builder(x)
    s.add(f)
    t0 = time.time()
    r = s.check()
    out = {"name": name, "solver": "z3", "time_s": round(time.time() - t0, 3), "status": str(r)}
    if key:
        out["key"] = key
    if r == z3.sat:
        w = s.model()[x]
        out["witness"] = w.as_string() if w is not None else ""
    if second and r == z3.unsat:
        smt2 = "(set-logic QF_SLIA)\n" + s.to_smt2().replace("(set-info :status unsat)", "")
        t1 = time.time()
        c = _cvc5_check(smt2)
        out["cvc5"] = c
        out["cvc5_time_s"] = round(time.time() - t1, 3)
        if c == "sat":
            out["status"] = "error"
            out["detail"] = "z3 says unsat, cvc5 says sat"
    return out


def equiv(name, impl_re, ref_re, **kw):
    return decide(name, lambda x: z3.Xor(z3.InRe(x, impl_re), z3.InRe(x, ref_re)), **kw)


def search_equiv_class(name, impl_pat, ref_class, **kw):
    """pattern used with .search(): 'some char of the string is in impl class' vs reference class;
    for single-class patterns this is equality of the two character classes"""
    impl = to_z3(impl_pat)
    return decide(name, lambda x: z3.And(z3.Length(x) == 1, z3.Xor(z3.InRe(x, impl), z3.InRe(x, ref_class))), **kw)
